"""C16 — endian-aware binary streams (StreamBuffer / StreamBufferReader / File / Socket): plugin for tools/check.py"""
import os
import re
import subprocess
import tempfile

from lib import cparse
from lib.core import hexs, unhex
from lib.engine import TranslateError

ID = "C16"
PROPS_MODULE = "AslProps.C16"
DRIVER = "c16"

TYPES = ["i8", "u8", "ch", "b", "i16", "u16", "i32", "u32", "i64", "u64", "f32", "f64"]
CTYPE = {"i8": "signed char", "u8": "asl::byte", "ch": "char", "b": "bool", "i16": "short", "u16": "unsigned short",
         "i32": "int", "u32": "unsigned", "i64": "asl::Long", "u64": "asl::ULong", "f32": "float", "f64": "double"}
# how the parameter type is spelled in the operator>> overloads of StreamBufferReader
SBR_SPELL = {"signed char": "i8", "byte": "u8", "char": "ch", "bool": "b", "short": "i16", "unsigned short": "u16",
             "int": "i32", "unsigned": "u32", "Long": "i64", "ULong": "u64", "float": "f32", "double": "f64"}
ENDIANS = {"ENDIAN_BIG": "big", "ENDIAN_LITTLE": "little", "ENDIAN_NATIVE": "native"}

# ------------------------------------------------------------------ G: translator


def _probe(repo):
    """compile and run a 10-line program against /repo's headers: numeric value of ASL_OTHER_ENDIAN, of the
    enumerators, the compiler's byte order and sizeof of the 12 streamed types"""
    src = "#include <stdio.h>\n#include <asl/defs.h>\nusing namespace asl;\nint main(){\n"
    src += 'printf("other=%d big=%d little=%d native=%d\\n", (int)ASL_OTHER_ENDIAN, (int)asl::ENDIAN_BIG, (int)asl::ENDIAN_LITTLE, (int)asl::ENDIAN_NATIVE);\n'
    src += 'printf("hostlittle=%d\\n", (int)(__BYTE_ORDER__ == __ORDER_LITTLE_ENDIAN__));\n'
    src += 'unsigned probe = 0x01020304u; printf("firstbyte=%d\\n", (int)*(unsigned char*)&probe);\n'
    for t in TYPES:
        src += 'printf("sizeof_%s=%%d\\n", (int)sizeof(%s));\n' % (t, CTYPE[t])
    src += "return 0;}\n"
    d = tempfile.mkdtemp(prefix="c16gen")
    try:
        cpp = os.path.join(d, "p.cpp")
        exe = os.path.join(d, "p")
        open(cpp, "w").write(src)
        p = subprocess.run(["g++", "-std=c++11", "-DASL_VERIF", "-DASL_STATIC", "-w", "-I", os.path.join(repo, "include"), cpp, "-o", exe],
                           stdout=subprocess.PIPE, stderr=subprocess.STDOUT)
        if p.returncode != 0:
            raise TranslateError("probe program does not compile against include/asl/defs.h: " + p.stdout.decode(errors="replace")[-600:])
        out = subprocess.run([exe], stdout=subprocess.PIPE).stdout.decode()
    finally:
        import shutil
        shutil.rmtree(d, ignore_errors=True)
    kv = dict(re.findall(r"(\w+)=(-?\d+)", out))
    # second stage: the IsArithmetic<T> trait (absent before commit 8a61870: then no byte-order test refers to it)
    src2 = "#include <stdio.h>\n#include <asl/String.h>\nusing namespace asl;\nint main(){\n"
    for t in TYPES:
        src2 += 'printf("arith_%s=%%d\\n", (int)IsArithmetic<%s>::value);\n' % (t, CTYPE[t])
    src2 += 'printf("arith_string=%d\\n", (int)IsArithmetic<String>::value);\nreturn 0;}\n'
    d = tempfile.mkdtemp(prefix="c16gen")
    try:
        cpp = os.path.join(d, "q.cpp")
        exe = os.path.join(d, "q")
        open(cpp, "w").write(src2)
        p = subprocess.run(["g++", "-std=c++11", "-DASL_VERIF", "-DASL_STATIC", "-w", "-I", os.path.join(repo, "include"), cpp, "-o", exe],
                           stdout=subprocess.PIPE, stderr=subprocess.STDOUT)
        if p.returncode == 0:
            kv.update(dict(re.findall(r"(\w+)=(-?\d+)", subprocess.run([exe], stdout=subprocess.PIPE).stdout.decode())))
            kv["has_arith"] = "1"
        else:
            kv["has_arith"] = "0"
    finally:
        import shutil
        shutil.rmtree(d, ignore_errors=True)
    need = ["other", "big", "little", "native", "hostlittle", "firstbyte"] + ["sizeof_" + t for t in TYPES]
    for k in need:
        if k not in kv:
            raise TranslateError("probe program printed no " + k)
    return {k: int(v) for k, v in kv.items()}


def _class_body(src, name):
    m = re.search(r"class\s+(?:ASL_API\s+)?%s\b[^;{]*\{" % name, src)
    if not m:
        raise TranslateError("class %s not found" % name)
    return cparse.find_function(src, r"class\s+(?:ASL_API\s+)?%s\b[^;{]*\{" % name)


def _cond(text, what):
    """`_endian == ASL_OTHER_ENDIAN` / `endian() != ENDIAN_BIG` ... -> Lean Bool expression in `e`"""
    m = re.fullmatch(r"\s*\(?\s*(?:_endian|endian\(\))\s*(==|!=)\s*(ASL_OTHER_ENDIAN|ENDIAN_BIG|ENDIAN_LITTLE|ENDIAN_NATIVE)\s*\)?\s*", text)
    if not m:
        raise TranslateError("%s: unrecognised byte-order condition `%s`" % (what, text.strip()))
    rhs = "otherEndian" if m.group(2) == "ASL_OTHER_ENDIAN" else "Endian." + ENDIANS[m.group(2)]
    return "(e %s %s)" % ("==" if m.group(1) == "==" else "!=", rhs)


def _acond(text, what):
    """byte-order test of an Array<T> overload: `<order test>` or `<order test> || !IsArithmetic<T>::value`
    -> Lean Bool expression in `e` and `arith` (is the element type a built-in arithmetic type)"""
    m = re.fullmatch(r"(.*?)\|\|\s*!\s*IsArithmetic<T>::value\s*", text, re.S)
    if m:
        return "(%s || !arith)" % _cond(m.group(1), what)
    return _cond(text, what)


def _count(text, what):
    """byte count passed to write() in the non-swapping branch of operator<<(const Array<T>&)"""
    t = re.sub(r"\s+", "", text)
    if t == "x.length()":
        return "len"
    if t in ("x.length()*(int)sizeof(T)", "x.length()*sizeof(T)", "(int)(x.length()*sizeof(T))", "int(x.length()*sizeof(T))",
             "sizeof(T)*x.length()", "(int)sizeof(T)*x.length()", "x.length()*int(sizeof(T))"):
        return "len * size"
    raise TranslateError("%s: unrecognised byte count `%s`" % (what, text.strip()))


WSTMTS = [
    # (statement after whitespace normalisation, memory steps it stands for) — `C` is the byte-order condition
    (r"AsBytes<T> y\(x\)", ["copyTmp"]),                                     # temporary copy of the argument's bytes
    (r"T y = \((?P<c>.*?)\) \? bytesSwapped\(x\) : x", ["copyTmp", "swapTmp"]),  # bytesSwapped = `T y = x; swapBytes(y); return y;` (checked below)
    (r"if \((?P<c>.*?)\) swapBytes\(y\)", ["swapTmp"]),
    (r"if \((?P<c>.*?)\) swapBytes\((?:\(T&\) ?x|const_cast<T&>\(x\))\)", ["swapArg"]),  # in place, on the caller's object
    (r"write\((?:y\.b|&y), sizeof\((?:T|x)\)\)", ["writeTmp"]),
    (r"write\(&x, sizeof\((?:T|x)\)\)", ["writeArg"]),
    (r"return \*this", []),
]


def _writer_stmts(b, what):
    """the body of the generic scalar writer, statement by statement: (byte-order condition, memory path).
    The path says which object `swapBytes` and `write` touch: the temporary `y` or the caller's `x` (model: `WStmt`)."""
    conds, path = [], []
    stmts = [" ".join(x.split()) for x in b.split(";")]
    stmts = [x for x in stmts if x]
    if not stmts or stmts[-1] != "return *this":
        raise TranslateError(what + ": body does not end in `return *this;`: " + " ".join(b.split())[:200])
    for st in stmts:
        for rx, steps in WSTMTS:
            m = re.fullmatch(rx, st)
            if m:
                if "c" in m.groupdict():
                    conds.append(_cond(m.group("c"), what))
                path += steps
                break
        else:
            raise TranslateError(what + ": statement not recognised: `%s`" % st[:160])
    if len(set(conds)) != 1:
        raise TranslateError(what + ": expected one byte-order condition, found %r" % conds)
    if sum(1 for x in path if x.startswith("write")) != 1:
        raise TranslateError(what + ": expected exactly one write(): %r" % path)
    return conds[0], path


def _writer_template(body, what):
    """the generic `template<class T> X& operator<<(const T& x)`; returns (cond, memory path)"""
    m = re.search(r"template\s*<\s*class\s+T\s*>\s*\w+&\s*operator<<\s*\(\s*const\s+T&\s*x\s*\)\s*\{(.*?)\n\t\}", body, re.S)
    if not m:
        raise TranslateError(what + ": generic operator<< not found")
    b = m.group(1)
    if re.fullmatch(r"\s*return\s+put_\(x,\s*&x\);\s*", b):
        # File / Socket since e2ca1c4: dispatch on the argument's address — Array-derived objects to the Array overload,
        # plain values to the raw path
        cls = re.search(r"(\w+)::", what).group(1)
        if not re.search(r"template\s*<\s*class\s+T\s*,\s*class\s+K\s*>\s*%s&\s*put_\(\s*const\s+T&\s*,\s*const\s+Array<K>\*\s*a\s*\)[^{]*\{\s*return\s+\*this\s*<<\s*\*a;\s*\}" % cls, body):
            raise TranslateError(what + ": put_(const T&, const Array<K>*) missing or not recognised")
        mp = re.search(r"template\s*<\s*class\s+T\s*>\s*%s&\s*put_\(\s*const\s+T&\s*x\s*,\s*const\s+void\*\s*\)[^{]*\{(.*?)\n\t\}" % cls, body, re.S)
        if not mp:
            raise TranslateError(what + ": put_(const T&, const void*) not found")
        return _writer_stmts(mp.group(1), what + " [put_(const T&, const void*)]")
    if cls_is_file_or_socket(what) and re.search(r"write\(&[xy],\s*sizeof\(x\)\);", b):
        raise TranslateError(what + ": the generic operator writes its argument raw without the Array dispatch: an object derived from Array<T> "
                             "(Stack, Queue, StreamBuffer) would be written as the memory of its handle")
    return _writer_stmts(b, what)


def cls_is_file_or_socket(what):
    return what.startswith("File::") or what.startswith("Socket::")


def _reader_template(body, what):
    m = re.search(r"template\s*<\s*class\s+T\s*>\s*\w+&\s*operator>>\s*\(\s*T&\s*x\s*\)\s*\{(.*?)\n\t\}", body, re.S)
    if not m:
        raise TranslateError(what + ": generic operator>> not found")
    b = m.group(1)
    if not re.fullmatch(r"\s*return\s+get_\(x,\s*&x\);\s*", b):
        raise TranslateError(what + ": the generic operator>> does not dispatch Array-derived objects to operator>>(Array<T>&) (it would read raw bytes over the handle): "
                             + " ".join(b.split())[:160])
    cls = re.search(r"(\w+)::", what).group(1)
    if not re.search(r"template\s*<\s*class\s+T\s*,\s*class\s+K\s*>\s*%s&\s*get_\(\s*T&\s*,\s*Array<K>\*\s*a\s*\)[^{]*\{\s*return\s+\*this\s*>>\s*\*a;\s*\}" % cls, body):
        raise TranslateError(what + ": get_(T&, Array<K>*) missing or not recognised")
    mp = re.search(r"template\s*<\s*class\s+T\s*>\s*%s&\s*get_\(\s*T&\s*x\s*,\s*void\*\s*\)[^{]*\{(.*?)\n\t\}" % cls, body, re.S)
    if not mp:
        raise TranslateError(what + ": get_(T&, void*) not found")
    m1 = re.fullmatch(r"\s*read\(&x,\s*sizeof\(x\)\);\s*if\s*\((.*?)\)\s*swapBytes\(x\);\s*return\s+\*this;\s*", mp.group(1), re.S)
    if not m1:
        raise TranslateError(what + ": body of get_(T&, void*) not recognised: " + " ".join(mp.group(1).split())[:200])
    return _cond(m1.group(1), what)


def _array_template(body, what):
    m = re.search(r"template\s*<\s*class\s+T\s*>\s*\w+&\s*operator<<\s*\(\s*const\s+Array<T>&\s*x\s*\)\s*\{(.*?)\n\t\}", body, re.S)
    if not m:
        raise TranslateError(what + ": operator<<(const Array<T>&) not found")
    b = m.group(1)
    m1 = re.search(r"if\s*\((.*?)\)\s*\{\s*foreach\s*\(\s*const\s+T&\s*y\s*,\s*x\s*\)\s*\*this\s*<<\s*y;\s*\}\s*else\s+write\(\s*&x\[0\]\s*,(.*?)\);\s*return\s+\*this;", b, re.S)
    if not m1:
        raise TranslateError(what + ": body of operator<<(const Array<T>&) not recognised: " + " ".join(b.split())[:200])
    return _acond(m1.group(1), what), _count(m1.group(2), what)


def _rarray_template(body, what):
    """`template<class T> X& operator>>(Array<T>& x)` of File / Socket (added by commit cdda882)"""
    m = re.search(r"template\s*<\s*class\s+T\s*>\s*\w+&\s*operator>>\s*\(\s*Array<T>&\s*x\s*\)\s*\{(.*?)\n\t\}", body, re.S)
    if not m:
        raise TranslateError(what + ": operator>>(Array<T>&) not found (the generic operator>>(T&) would read raw bytes over the Array object)")
    b = m.group(1)
    m1 = re.search(r"if\s*\((.*?)\)\s*\{\s*for\s*\(\s*int\s+i\s*=\s*0;\s*i\s*<\s*x\.length\(\);\s*i\+\+\s*\)\s*\*this\s*>>\s*x\[i\];\s*\}\s*"
                   r"else\s+read\(\s*&x\[0\]\s*,(.*?)\);\s*return\s+\*this;", b, re.S)
    if not m1:
        raise TranslateError(what + ": body of operator>>(Array<T>&) not recognised: " + " ".join(b.split())[:200])
    return _acond(m1.group(1), what), _count(m1.group(2), what)


def _raw_overloads(body, cls, what):
    """shape check of the raw-byte overloads: `<< ByteArray` (`Array<byte>` in Socket), `<< const char*`, `<< String`
    each pass exactly (pointer to the first byte, byte length) to write(); File/Socket `>> char` / `>> byte` read
    sizeof(x) bytes without swapping.  Nothing is generated: any other shape is a TranslateError."""
    shapes = [
        (r"const\s+(?:ByteArray|Array<byte>)&\s*x", r"write\(\s*(?:x\.data\(\)|&x\[0\])\s*,\s*x\.length\(\)\s*\);", "const ByteArray&"),
        (r"const\s+char\*\s*x", r"write\(\s*x\s*,\s*\(int\)\s*strlen\(x\)\s*\);", "const char*"),
        (r"const\s+String&\s*x", r"write\(\s*\*x\s*,\s*x\.length\(\)\s*\);", "const String&"),
    ]
    for par, bod, nm in shapes:
        hs = re.findall(r"%s&\s*operator<<\s*\(\s*%s\s*\)\s*\{(.*?)\}" % (cls, par), body, re.S)
        if len(hs) != 1:
            raise TranslateError("%s::operator<<(%s): expected exactly one overload, found %d" % (what, nm, len(hs)))
        if not re.fullmatch(r"\s*%s\s*return\s+\*this;\s*" % bod, hs[0]):
            raise TranslateError("%s::operator<<(%s): body not recognised: %s" % (what, nm, " ".join(hs[0].split())[:160]))
    hs = re.findall(r"%s&\s*operator<<\s*\(\s*char\*\s*x\s*\)[^{]*\{(.*?)\}" % cls, body, re.S)
    if len(hs) != 1 or not re.fullmatch(r"\s*return\s+\*this\s*<<\s*\(const\s+char\*\)\s*x;\s*", hs[0]):
        raise TranslateError("%s::operator<<(char*): missing or not recognised (a non-const char* / char[N] would go to the generic operator: pointer value written)" % what)
    if cls == "StreamBuffer":
        if not re.search(r"template\s*<\s*class\s+T\s*,\s*int\s+N\s*>\s*StreamBuffer&\s*operator<<\s*\(\s*const\s+T\s*\(&x\)\[N\]\s*\)\s*\{\s*for\s*\(\s*int\s+i\s*=\s*0;\s*i\s*<\s*N;\s*i\+\+\s*\)\s*\*this\s*<<\s*x\[i\];\s*return\s+\*this;\s*\}", body):
            raise TranslateError("StreamBuffer::operator<<(const T (&)[N]): missing or not recognised (a C array would go to the generic operator: items reversed in the non-native order)")
    if cls != "StreamBuffer":
        for ty in ("char", "byte"):
            hs = re.findall(r"%s&\s*operator>>\s*\(\s*%s&\s*x\s*\)\s*\{(.*?)\}" % (cls, ty), body, re.S)
            if len(hs) != 1 or not re.fullmatch(r"\s*read\(\s*&x\s*,\s*sizeof\(x\)\s*\);\s*return\s+\*this;\s*", hs[0]):
                raise TranslateError("%s::operator>>(%s&): not recognised" % (what, ty))


TERM = re.compile(r"\(\s*\((unsigned short|unsigned|ULong)\)\s*_ptr\[(\d+)\]\s*(?:<<\s*(\d+))?\s*\)")


def _terms(expr, cast, what):
    out = []
    rest = expr
    for m in TERM.finditer(expr):
        if m.group(1) != cast:
            raise TranslateError("%s: term cast to `%s`, expected `%s`" % (what, m.group(1), cast))
        out.append((int(m.group(2)), int(m.group(3) or 0)))
    rest = TERM.sub("", expr)
    if re.sub(r"[\s|]", "", rest) != "" or rest.count("|") != len(out) - 1:
        raise TranslateError("%s: expression not a plain OR of shifted bytes: `%s`" % (what, " ".join(expr.split())))
    return out


def _readN(body, n, cast):
    what = "StreamBufferReader::read%d" % n
    m = re.search(r"StreamBufferReader&\s*read%d\s*\(\s*T&\s*x\s*\)\s*\{(.*?)\n\t\}" % n, body, re.S)
    if not m:
        raise TranslateError(what + " not found")
    b = m.group(1)
    m1 = re.search(r"AsOther<\s*%s\s*,\s*T\s*>\s*a\(\s*(\(.*?\))\s*\?(.*?):(.*?)\);\s*x\s*=\s*a\.other\(\);\s*_ptr\s*\+=\s*(\d+);\s*return\s+\*this;" % re.escape(cast), b, re.S)
    if not m1:
        raise TranslateError(what + ": body not recognised: " + " ".join(b.split())[:200])
    return _cond(m1.group(1), what), _terms(m1.group(2), cast, what + " (then)"), _terms(m1.group(3), cast, what + " (else)"), int(m1.group(4))


def _pairs(ts):
    return "[" + ", ".join("(%d, %d)" % t for t in ts) + "]"


def translate(repo):
    pr = _probe(repo)
    vals = {pr["big"]: "big", pr["little"]: "little", pr["native"]: "native"}
    if len(vals) != 3:
        raise TranslateError("enum Endian: enumerators are not distinct")
    if pr["other"] not in vals:
        raise TranslateError("ASL_OTHER_ENDIAN is not an enumerator of Endian")
    if pr["hostlittle"] != (1 if pr["firstbyte"] == 4 else 0):
        raise TranslateError("compiler macro __BYTE_ORDER__ disagrees with a memory probe")
    defs = cparse.read(repo, "include/asl/defs.h")
    if not re.search(r"enum\s+Endian\s*\{\s*ENDIAN_BIG\s*,\s*ENDIAN_LITTLE\s*,\s*ENDIAN_NATIVE\s*\}", defs):
        raise TranslateError("enum Endian is not {ENDIAN_BIG, ENDIAN_LITTLE, ENDIAN_NATIVE}")
    sbh = cparse.read(repo, "include/asl/StreamBuffer.h").replace("\r", "")
    fh = cparse.read(repo, "include/asl/File.h").replace("\r", "")
    sh = cparse.read(repo, "include/asl/Socket.h").replace("\r", "")
    scpp = cparse.read(repo, "src/Socket.cpp").replace("\r", "")
    sbr = _class_body(sbh, "StreamBufferReader")
    sb = _class_body(sbh, "StreamBuffer")
    fb = _class_body(fh, "File")
    m = re.search(r"class\s+ASL_API\s+Socket\s*:\s*public\s+SmartObject\s*\{", sh)
    if not m:
        raise TranslateError("class Socket not found")
    sk = cparse.find_function(sh, r"class\s+ASL_API\s+Socket\s*:\s*public\s+SmartObject\s*\{")

    _raw_overloads(sb, "StreamBuffer", "StreamBuffer")
    _raw_overloads(fb, "File", "File")
    _raw_overloads(sk, "Socket", "Socket")
    def _nexpr(text, what):
        # an expression over the parameter `n` (natural numbers in the model: the protocol only passes n >= 0)
        t = re.sub(r"\s+", "", text)
        if not re.fullmatch(r"[n0-9+\-*()]+", t) or t[0] in "+-*" or "n" not in t:
            raise TranslateError("%s: byte count `%s` not recognised" % (what, text.strip()))
        return re.sub(r"([+\-*])", r" \1 ", t)
    raw = {}
    m = re.search(r"void\s+write\(const\s+void\*\s*data,\s*int\s+n\)\s*\{\s*append\(\(const\s+byte\*\)data,\s*(.*?)\);\s*\}", sb)
    if not m:
        raise TranslateError("StreamBuffer::write not recognised")
    raw["sbWriteCount"] = _nexpr(m.group(1), "StreamBuffer::write")
    m = re.search(r"ByteArray\s+read\(int\s+n\s*=\s*-1\)\s*\{\s*if\s*\(n\s*<\s*0\)\s*n\s*=\s*length\(\);\s*ByteArray\s+a\((.*?)\);\s*memcpy\(a\.data\(\),\s*_ptr,\s*(.*?)\);\s*_ptr\s*\+=\s*(.*?);\s*return\s+a;\s*\}", sbr)
    if not m:
        raise TranslateError("StreamBufferReader::read(int) not recognised")
    if _nexpr(m.group(1), "StreamBufferReader::read(int)") != _nexpr(m.group(2), "StreamBufferReader::read(int)"):
        raise TranslateError("StreamBufferReader::read(int): the array has `%s` bytes but `%s` are copied into it" % (m.group(1), m.group(2)))
    raw["sbrReadCount"] = _nexpr(m.group(1), "StreamBufferReader::read(int)")
    raw["sbrReadAdv"] = _nexpr(m.group(3), "StreamBufferReader::read(int)")
    m = re.search(r"StreamBufferReader&\s*skip\(int\s+n\)\s*\{\s*_ptr\s*\+=\s*(.*?);\s*return\s+\*this;\s*\}", sbr)
    if not m:
        raise TranslateError("StreamBufferReader::skip not recognised")
    raw["sbrSkipAdv"] = _nexpr(m.group(1), "StreamBufferReader::skip")
    fcpp = cparse.read(repo, "src/File.cpp").replace("\r", "")
    m = re.search(r"int\s+File::read\(void\*\s*p,\s*int\s+n\)\s*\{\s*return\s+\(int\)fread\(p,\s*(\d+),\s*(.*?),\s*_file\);\s*\}", fcpp)
    if not m:
        raise TranslateError("File::read not recognised")
    raw["fileReadCount"] = "%s * (%s)" % (m.group(1), _nexpr(m.group(2), "File::read"))
    m = re.search(r"int\s+File::write\(const\s+void\*\s*p,\s*int\s+n\)\s*\{\s*return\s+\(int\)fwrite\(p,\s*(\d+),\s*(.*?),\s*_file\);\s*\}", fcpp)
    if not m:
        raise TranslateError("File::write not recognised")
    raw["fileWriteCount"] = "%s * (%s)" % (m.group(1), _nexpr(m.group(2), "File::write"))
    m = re.search(r"void\s+Socket_::skip\(int\s+n\)\s*\{\s*ByteArray\s+a\((.*?)\);\s*read\(a\.data\(\),\s*a\.length\(\)\);\s*\}", scpp)
    if not m:
        raise TranslateError("Socket_::skip not recognised (a read of n bytes that is thrown away expected)")
    raw["sockSkipCount"] = _nexpr(m.group(1), "Socket_::skip")

    L = []
    L.append("/- GENERATED by tools/props/c16.py from include/asl/{defs,StreamBuffer,File,Socket}.h, src/{Socket,File}.cpp and a compiler probe — do not edit -/")
    L.append("namespace Gen.Stream\n")
    L.append("/-- `enum Endian { ENDIAN_BIG, ENDIAN_LITTLE, ENDIAN_NATIVE }` (include/asl/defs.h) -/")
    L.append("inductive Endian where\n  | big | little | native\nderiving DecidableEq, Repr\n")
    L.append("/-- the streamed C++ types: signed char, byte, char, bool, short, unsigned short, int, unsigned, Long, ULong, float, double -/")
    L.append("inductive Ty where\n  | i8 | u8 | ch | b | i16 | u16 | i32 | u32 | i64 | u64 | f32 | f64\nderiving DecidableEq, Repr\n")
    L.append("/-- `ASL_OTHER_ENDIAN` after preprocessing with the flags the library is built with -/")
    L.append("def otherEndian : Endian := .%s\n" % vals[pr["other"]])
    L.append("/-- `__BYTE_ORDER__ == __ORDER_LITTLE_ENDIAN__` for the compiler that builds the library (cross-checked by a memory probe) -/")
    L.append("def hostLittle : Bool := %s\n" % ("true" if pr["hostlittle"] else "false"))
    L.append("/-- `sizeof(T)` as reported by the compiler -/")
    L.append("def sizeofT : Ty → Nat\n" + "\n".join("  | .%s => %d" % (t, pr["sizeof_" + t]) for t in TYPES) + "\n")

    # swapBytes (defs.h)
    sw = cparse.find_function(defs.replace("\r", ""), r"inline\s+void\s+swapBytes\s*\(\s*T&\s*x\s*\)\s*\{")
    m = re.search(r"byte\s+bx\[sizeof\(T\)\]\s*,\s*by\[sizeof\(T\)\];\s*memcpy\(bx,\s*&x,\s*sizeof\(T\)\);\s*const\s+int\s+n\s*=\s*sizeof\(T\);\s*"
                  r"for\s*\(\s*int\s+i\s*=\s*0;\s*i\s*<\s*n;\s*i\+\+\s*\)\s*by\[i\]\s*=\s*bx\[(.*?)\];\s*memcpy\(&x,\s*by,\s*sizeof\(T\)\);", sw, re.S)
    if not m:
        raise TranslateError("swapBytes: body not recognised: " + " ".join(sw.split())[:200])
    idx = re.sub(r"\s+", "", m.group(1))
    if not re.fullmatch(r"[ni0-9+\-]+", idx) or idx[0] in "+-":
        raise TranslateError("swapBytes: index expression `%s` not recognised" % m.group(1))
    L.append("/-- `swapBytes`: `for (i = 0; i < n; i++) by[i] = bx[INDEX]` — the index expression (natural subtraction is exact while it stays >= 0; a negative index is out of bounds either way) -/")
    L.append("def swapIndex (n i : Nat) : Nat := %s\n" % re.sub(r"([+\-])", r" \1 ", idx))
    bsw = cparse.find_function(defs.replace("\r", ""), r"inline\s+T\s+bytesSwapped\s*\(\s*const\s+T&\s*x\s*\)\s*\{")
    if not re.fullmatch(r"\{\s*T\s+y\s*=\s*x;\s*swapBytes\(y\);\s*return\s+y;\s*\}", bsw):
        raise TranslateError("bytesSwapped: body not recognised")

    L.append("/-- what the generic `operator<<(const T& x)` does to memory, statement by statement: `copyTmp` = `AsBytes<T> y(x)` / `T y = x` (also inside "
             "`bytesSwapped`), `swapTmp` = `if (C) swapBytes(y)`, `swapArg` = `if (C) swapBytes((T&)x)` (in place, on the caller's object), "
             "`writeTmp` = `write(y.b | &y, sizeof(T))`, `writeArg` = `write(&x, sizeof(T))` -/")
    L.append("inductive WStmt where\n  | copyTmp | swapTmp | swapArg | writeTmp | writeArg\nderiving DecidableEq, Repr\n")
    L.append("/-- `IsArithmetic<T>::value` as reported by the compiler (defs.h; `true` where the trait does not exist yet) -/")
    L.append("def arithT : Ty → Bool\n" + "\n".join("  | .%s => %s" % (t, "true" if pr.get("arith_" + t, 1) else "false") for t in TYPES))
    L.append("/-- `IsArithmetic<String>::value` -/")
    L.append("def arithString : Bool := %s\n" % ("true" if pr.get("arith_string", 0) else "false"))

    # StreamBuffer
    L.append("/-! StreamBuffer (writer) -/")
    c, sbpath = _writer_template(sb, "StreamBuffer::operator<<(const T&)")
    L.append("def sbSwap (e : Endian) : Bool := %s" % c)
    L.append("def sbPath : List WStmt := [%s]" % ", ".join("." + x for x in sbpath))
    c, n = _array_template(sb, "StreamBuffer::operator<<(const Array<T>&)")
    L.append("def sbArraySwap (e : Endian) (arith : Bool) : Bool := %s" % c)
    L.append("def sbArrayCount (len size : Nat) : Nat := %s" % n)
    m = re.search(r"StreamBuffer\(\s*Endian\s+e\s*=\s*(ENDIAN_\w+)\s*\)\s*:\s*_endian\(e\)", sb)
    if not m or m.group(1) not in ENDIANS:
        raise TranslateError("StreamBuffer constructor default byte order not found")
    L.append("def sbDefault : Endian := .%s\n" % ENDIANS[m.group(1)])
    for ov, exp in (("bool", r"\(ByteArray&\)\(\*this\)\s*<<\s*byte\(x\s*\?\s*1\s*:\s*0\);"),
                    ("byte", r"\(ByteArray&\)\(\*this\)\s*<<\s*x;"),
                    ("char", r"\(ByteArray&\)\(\*this\)\s*<<\s*\*\(byte\*\)&x;"),
                    ("signed char", r"\(ByteArray&\)\(\*this\)\s*<<\s*\*\(byte\*\)&x;")):
        if not re.search(r"StreamBuffer&\s*operator<<\s*\(\s*const\s+%s&\s*x\s*\)\s*\{\s*%s\s*return\s+\*this;\s*\}" % (re.escape(ov), exp), sb):
            raise TranslateError("StreamBuffer::operator<<(const %s&) not recognised" % ov)

    # StreamBufferReader
    L.append("/-! StreamBufferReader: `(_endian == X) ? OR of (byte index, shift) : OR of (byte index, shift)`, then `_ptr += n` -/")
    for n_, cast in ((2, "unsigned short"), (4, "unsigned"), (8, "ULong")):
        c, a, b, adv = _readN(sbr, n_, cast)
        L.append("def read%dCond (e : Endian) : Bool := %s" % (n_, c))
        L.append("def read%dThen : List (Nat × Nat) := %s" % (n_, _pairs(a)))
        L.append("def read%dElse : List (Nat × Nat) := %s" % (n_, _pairs(b)))
        L.append("def read%dAdv : Nat := %d" % (n_, adv))
    disp = {}
    for m in re.finditer(r"StreamBufferReader&\s*operator>>\s*\(\s*([\w ]+?)&\s*x\s*\)\s*\{\s*return\s+read(\d)\(x\);\s*\}", sbr):
        ty = " ".join(m.group(1).split())
        if ty not in SBR_SPELL:
            raise TranslateError("StreamBufferReader::operator>>(%s&): type not in the model" % ty)
        disp[SBR_SPELL[ty]] = int(m.group(2))
    one = {}
    for ov, exp in (("bool", r"x\s*=\s*\*_ptr\s*!=\s*0;\s*_ptr\+\+;"),
                    ("signed char", r"x\s*=\s*\*\(const\s+char\*\)_ptr;\s*_ptr\+\+;"),
                    ("char", r"x\s*=\s*\*\(const\s+char\*\)_ptr;\s*_ptr\+\+;"),
                    ("byte", r"x\s*=\s*\*_ptr\+\+;")):
        if not re.search(r"StreamBufferReader&\s*operator>>\s*\(\s*%s&\s*x\s*\)\s*\{\s*%s\s*return\s+\*this;\s*\}" % (re.escape(ov), exp), sbr):
            raise TranslateError("StreamBufferReader::operator>>(%s&) not recognised" % ov)
        one[SBR_SPELL[ov]] = 1
    for t in TYPES:
        if t not in disp and t not in one:
            raise TranslateError("StreamBufferReader has no operator>> for " + CTYPE[t])
    L.append("/-- which `readN` each `operator>>` overload calls (1 = the single-byte overloads) -/")
    L.append("def sbrWidth : Ty → Nat\n" + "\n".join("  | .%s => %d" % (t, disp.get(t, 1)) for t in TYPES))
    m = re.search(r"StreamBufferReader\(const ByteArray& data, Endian e = (ENDIAN_\w+)\)", sbr)
    m2 = re.search(r"StreamBufferReader\(const byte\* data, int n, Endian e = (ENDIAN_\w+)\)", sbr)
    if not m or not m2 or m.group(1) != m2.group(1) or m.group(1) not in ENDIANS:
        raise TranslateError("StreamBufferReader constructor default byte order not found")
    L.append("def sbrDefault : Endian := .%s\n" % ENDIANS[m.group(1)])

    # File
    L.append("/-! File -/")
    c, fpath = _writer_template(fb, "File::operator<<(const T&)")
    L.append("def fileWSwap (e : Endian) : Bool := %s" % c)
    L.append("def filePath : List WStmt := [%s]" % ", ".join("." + x for x in fpath))
    L.append("def fileRSwap (e : Endian) : Bool := %s" % _reader_template(fb, "File::operator>>(T&)"))
    c, n = _array_template(fb, "File::operator<<(const Array<T>&)")
    L.append("def fileArraySwap (e : Endian) (arith : Bool) : Bool := %s" % c)
    L.append("def fileArrayCount (len size : Nat) : Nat := %s" % n)
    c, n = _rarray_template(fb, "File::operator>>(Array<T>&)")
    L.append("def fileRArraySwap (e : Endian) (arith : Bool) : Bool := %s" % c)
    L.append("def fileRArrayCount (len size : Nat) : Nat := %s" % n)
    m = re.search(r"File&\s*operator>>\s*\(\s*String&\s*x\s*\)\s*\{(.*?)\n\t\}", fb, re.S)
    if not m or not re.fullmatch(r"\s*int\s+n\s*=\s*0;\s*\*this\s*>>\s*n;\s*x\.clear\(\);\s*char\s+buf\[(\d+)\];\s*while\s*\(n\s*>\s*0\)\s*\{\s*"
                                 r"int\s+m\s*=\s*read\(buf,\s*n\s*<\s*\(int\)sizeof\(buf\)\s*\?\s*n\s*:\s*\(int\)sizeof\(buf\)\);\s*if\s*\(m\s*<=\s*0\)\s*break;\s*"
                                 r"x\.append\(buf,\s*m\);\s*n\s*-=\s*m;\s*\}\s*return\s+\*this;\s*", m.group(1), re.S):
        raise TranslateError("File::operator>>(String&): body not recognised (bounded block reads of a length-prefixed string expected)")
    inits = re.findall(r"_endian\((\w+)\)", fb)
    ctor = [i for i in inits if i.startswith("ENDIAN_")]
    if len(ctor) < 4 or len(set(ctor)) != 1 or ctor[0] not in ENDIANS:
        raise TranslateError("File constructors: default byte order not uniform: %r" % inits)
    L.append("def fileDefault : Endian := .%s\n" % ENDIANS[ctor[0]])

    # Socket
    L.append("/-! Socket -/")
    c, kpath = _writer_template(sk, "Socket::operator<<(const T&)")
    L.append("def sockWSwap (e : Endian) : Bool := %s" % c)
    L.append("def sockPath : List WStmt := [%s]" % ", ".join("." + x for x in kpath))
    L.append("def sockRSwap (e : Endian) : Bool := %s" % _reader_template(sk, "Socket::operator>>(T&)"))
    c, n = _array_template(sk, "Socket::operator<<(const Array<T>&)")
    L.append("def sockArraySwap (e : Endian) (arith : Bool) : Bool := %s" % c)
    L.append("def sockArrayCount (len size : Nat) : Nat := %s" % n)
    c, n = _rarray_template(sk, "Socket::operator>>(Array<T>&)")
    L.append("def sockRArraySwap (e : Endian) (arith : Bool) : Bool := %s" % c)
    L.append("def sockRArrayCount (len size : Nat) : Nat := %s" % n)
    if not re.search(r"String\s+readString\(int\s+n\)\s*\{\s*if\s*\(n\s*<\s*0\)\s*n\s*=\s*0;\s*String\s+s\(n,\s*0\);\s*n\s*=\s*read\(&s\[0\],\s*n\);\s*if\s*\(n\s*<\s*0\)\s*n\s*=\s*0;\s*s\[n\]\s*=\s*'\\0';\s*return\s+s\.fix\(n\);\s*\}", sk):
        raise TranslateError("Socket::readString: body not recognised (negative length treated as 0, length set to the bytes read — not strlen)")
    if not re.search(r"int\s+Socket_::read\(void\*\s*data,\s*int\s+size\)\s*\{\s*if\s*\(size\s*<=\s*0\)\s*return\s+0;", scpp):
        raise TranslateError("Socket_::read: a read of no bytes must return 0 without calling read() (it marked the socket as failed)")
    # the receive loop of Socket_::read(void*, int): chunks accumulate at data, the loop runs until size0 bytes are in;
    # what it RETURNS (the sum `s`, or e.g. the last chunk `n`) is regenerated (used by ByteArray read(n): a.resize(max(0, n)))
    flat = re.sub(r"\s+", "", scpp)
    m = re.search(r"intSocket_::read\(void\*data,intsize\)\{if\(size<=0\)return0;ints=0,size0=size;do\{#ifdef_WIN32intn=recv\(_handle,\(char\*\)data,size,0\);"
                  r"#elseintn=::read\(_handle,\(char\*\)data,size\);#endifif\(!_blocking\)returnn;if\(n<=0\)\{_error=SOCKET_BAD_RECV;break;\}"
                  r"data=\(char\*\)data\+n;s\+=n;size-=n;\}while\(s<size0\);return(s|n);\}", flat)
    if not m:
        raise TranslateError("Socket_::read(void*, int): receive loop not recognised (do { n = read(h, data, size); ...; data += n; s += n; size -= n; } while (s < size0); return s|n;)")
    m2 = re.search(r"ByteArraySocket_::read\(intn\)\{ByteArraya\(\(n<0\)\?available\(\):n\);n=read\(&a\[0\],a\.length\(\)\);returna\.resize\(max\(0,n\)\);\}", flat)
    if not m2:
        raise TranslateError("Socket_::read(int n): ByteArray a(n); n = read(&a[0], a.length()); return a.resize(max(0, n)); expected")
    L.append("/-- what `Socket_::read(void*, int)` returns after its receive loop: the sum of the chunks or the last chunk -/")
    L.append("inductive RecvRet where\n  | total | last\nderiving DecidableEq, Repr\n")
    L.append("def sockReadRet : RecvRet := .%s\n" % ("total" if m.group(1) == "s" else "last"))
    ds = re.findall(r"_endian\s*=\s*(ENDIAN_\w+);", scpp)
    if len(ds) < 2 or len(set(ds)) != 1 or ds[0] not in ENDIANS:
        raise TranslateError("Socket_ constructors: default byte order not uniform: %r" % ds)
    L.append("def sockDefault : Endian := .%s\n" % ENDIANS[ds[0]])
    L.append("/-! raw bytes: the count handed on by `StreamBuffer::write(data, n)` (`append(data, COUNT)`), the length/copy count and the `_ptr` advance of "
             "`StreamBufferReader::read(n)`, the advance of `StreamBufferReader::skip(n)`, size*count of the `fread`/`fwrite` in `File::read/write(p, n)`, "
             "the length of the read `Socket_::skip(n)` throws away -/")
    for nm in ("sbWriteCount", "sbrReadCount", "sbrReadAdv", "sbrSkipAdv", "fileReadCount", "fileWriteCount", "sockSkipCount"):
        L.append("def %s (n : Nat) : Nat := %s" % (nm, raw[nm]))
    L.append("")
    L.append("end Gen.Stream\n")
    return {"Gen/StreamGen.lean": "\n".join(L)}


def _fallback():
    # used by the engine only when translation fails AND no earlier Gen/StreamGen.lean exists (fresh restore):
    # the definitions generated from the tree this check was written against, so that the model still builds and
    # the correspondence check can exhibit a concrete failing input (the failed translation itself is reported).
    try:
        return {"Gen/StreamGen.lean": open(os.path.join(os.path.dirname(os.path.abspath(__file__)), "c16_streamgen_fallback.lean")).read()}
    except OSError:
        return {}


FALLBACK = _fallback()

# ------------------------------------------------------------------ K: generator

WIDTH = {"i8": 1, "u8": 1, "ch": 1, "b": 1, "i16": 2, "u16": 2, "i32": 4, "u32": 4, "i64": 8, "u64": 8, "f32": 4, "f64": 8}
KINDS = ["sb", "file", "sock"]
ORDERS = ["big", "little", "native"]

F32_SPECIAL = [0x7fc00000, 0x7f800001, 0xffc12345, 0x7fa00001, 0x7f800000, 0xff800000, 0x80000000, 0x00000001, 0x7f7fffff,
               0x3f800000, 0x7fffffff, 0xffffffff, 0x7fbfffff]
F64_SPECIAL = [0x7ff8000000000000, 0x7ff0000000000001, 0xfff8123456789abc, 0x7ff4000000000001, 0x7ff0000000000000,
               0xfff0000000000000, 0x8000000000000000, 0x0000000000000001, 0x7fefffffffffffff, 0x3ff0000000000000,
               0x7fffffffffffffff, 0xffffffffffffffff, 0x7ff7ffffffffffff]


def special_values(ty):
    w = WIDTH[ty]
    top = 1 << (8 * w)
    vs = [0, 1, top - 1, top >> 1, (top >> 1) - 1, int.from_bytes(bytes(range(1, w + 1)), "big"),
          int.from_bytes(bytes([0x80 + i for i in range(w)]), "big"), top - 2, 0xff, (0xff << (8 * (w - 1)))]
    if ty == "f32":
        vs += F32_SPECIAL
    if ty == "f64":
        vs += F64_SPECIAL
    if ty == "b":
        vs = [0, 1, 2, 0x7f, 0x80, 0xff]
    return [v % top for v in vs]


def rvalue(rng, ty):
    w = WIDTH[ty]
    r = rng.random()
    if r < 0.35:
        return rng.choice(special_values(ty))
    if r < 0.45 and ty in ("f32", "f64"):
        # NaN with random payload and sign
        if ty == "f32":
            return (rng.getrandbits(1) << 31) | 0x7f800000 | rng.randrange(1, 1 << 23)
        return (rng.getrandbits(1) << 63) | 0x7ff0000000000000 | rng.randrange(1, 1 << 52)
    if r < 0.55:
        # sparse bytes (zeros inside)
        return int.from_bytes(bytes(rng.choice([0, 0, 0xff, rng.getrandbits(8)]) for _ in range(w)), "big")
    return rng.getrandbits(8 * w)


def hv(ty, v):
    return "%0*x" % (2 * WIDTH[ty], v)


def rbytes(rng, n, nul=True):
    return bytes(rng.randrange(0 if nul else 1, 256) for _ in range(n))


def arr_line(rng, ty, n):
    w = WIDTH[ty]
    blob = b"".join(rvalue(rng, ty).to_bytes(w, "big") for _ in range(n))
    return "wa %s %s" % (ty, hexs(blob))


def roundtrip_case(rng, kind, nitems, arr_max=100, p_switch=0.2):
    """write a sequence of typed values with order switches, read the same types back in the same orders"""
    start = rng.choice(["def"] + ORDERS)
    wl = ["new %s %s" % (kind, start)]
    rl = ["reader %s" % start]
    total = 0
    for _ in range(nitems):
        if rng.random() < p_switch:
            o = rng.choice(ORDERS)
            wl.append("endian " + o)
            rl.append("rendian " + o)
        r = rng.random()
        ty = rng.choice(TYPES)
        if r < 0.62:
            v = rvalue(rng, ty)
            if rng.random() < 0.03 and ty != "b":
                # wider literal than the type: the conversion to T truncates
                v |= rng.getrandbits(64 - 8 * WIDTH[ty]) << (8 * WIDTH[ty]) if WIDTH[ty] < 8 else 0
                wl.append("w %s %016x" % (ty, v))
            else:
                wl.append("w %s %s" % (ty, hv(ty, v)))
            rl.append("r " + ty)
            total += WIDTH[ty]
        elif r < 0.82:
            n = rng.choice([0, 1, 2, 3, rng.randrange(0, arr_max + 1), rng.randrange(0, arr_max + 1), arr_max])
            if rng.random() < 0.35:
                # the same Array<T> object written twice (or three times), possibly with a switch in between
                n = min(n, 40)
                slot = rng.randrange(0, 4)
                wl.append("av %d %s" % (slot, arr_line(rng, ty, n)[3:]))
                for rep in range(rng.choice([2, 2, 3])):
                    if rep and rng.random() < 0.6:
                        o = rng.choice(ORDERS)
                        wl.append("endian " + o)
                        rl.append("rendian " + o)
                    wl.append("wv %d" % slot)
                    rl.extend(["r " + ty] * n)
                    total += n * WIDTH[ty]
                continue
            if kind != "sb" and rng.random() < 0.2:
                # an object derived from Array<T>: Stack<T> / Queue<T>
                cls = rng.choice(["stack", "queue"])
                n = min(n, 40)
                wl.append("wd %s %s" % (cls, arr_line(rng, ty, n)[3:]))
                if rng.random() < 0.5:
                    rl.append("rd %s %s %d" % (rng.choice(["stack", "queue"]), ty, n))
                else:
                    rl.extend(["r " + ty] * n)
                total += n * WIDTH[ty]
                continue
            if kind == "sb" and ty != "ch" and rng.random() < 0.25:
                # a C array T[N] (char[N] is a C string: ops wc / wca)
                n = rng.randrange(1, 9)
                wl.append("wcarr" + arr_line(rng, ty, n)[2:])
                rl.extend(["r " + ty] * n)
                total += n * WIDTH[ty]
                continue
            wl.append(arr_line(rng, ty, n))
            q = rng.random()
            if q < 0.2:
                rl.append("rb %d" % (n * WIDTH[ty]))
            elif q < 0.6 and kind != "sb":
                rl.append("ra %s %d" % (ty, n))      # stream >> Array<T> of the same length
            else:
                rl.extend(["r " + ty] * n)
            total += n * WIDTH[ty]
        elif r < 0.845:
            # Array<String>
            ss = [rbytes(rng, rng.randrange(0, 12)) for _ in range(rng.randrange(0, 6))]
            wl.append("was" + "".join(" " + hexs(x) for x in ss))
            rl.append("rb %d" % sum(len(x) for x in ss))
            total += sum(len(x) for x in ss)
        elif r < 0.86 and kind == "sb":
            # the buffer's own bytes written into itself (capped so that the stream stays small)
            if total <= 600:
                if rng.random() < 0.5:
                    wl.append("wself")
                    rl.append("rb %d" % total)
                    total *= 2
                else:
                    a = rng.randrange(0, total + 1)
                    n = rng.randrange(0, total - a + 1)
                    wl.append("wselfpart %d %d" % (a, n))
                    rl.append("rb %d" % n)
                    total += n
        elif r < 0.88 and kind != "sb":
            # length-prefixed string, read back with operator>>(String&)
            s = rbytes(rng, rng.randrange(0, 40), nul=True)
            if rng.random() < 0.3:
                s = s[:len(s) // 2] + b"\0" + s[len(s) // 2:]
            wl.append("w i32 %08x" % len(s))
            wl.append("ws " + hexs(s))
            rl.append("rs")
            total += 4 + len(s)
        else:
            s = rbytes(rng, rng.randrange(0, 40))
            op = rng.choice(["ws", "wb", "wz", "wc", "wca", "wdsb"])
            if op == "wdsb" and kind == "sb":
                op = "wb"
            if op == "wca":
                s = s[:rng.randrange(0, 16)]
            wl.append("%s %s" % (op, hexs(s)))
            n = len(s.split(b"\0")[0]) if op in ("wz", "wc", "wca") else len(s)   # wb / ws / wdsb: all the bytes
            rl.append("rb %d" % n)
            total += n
    # some items are stepped over with skip(size of the item) instead of being read (theorem read_back_with_skips): the
    # reads after them must still return the values written; a skip is sometimes split in two, or made with a raw read
    out = []
    for l in rl:
        t = l.split()
        size = None
        if rng.random() < 0.1:
            if t[0] == "r":
                size = WIDTH[t[1]]
            elif t[0] == "rb":
                size = int(t[1])
            elif t[0] == "ra":
                size = WIDTH[t[1]] * int(t[2])
        if size is None:
            out.append(l)
        elif size > 1 and rng.random() < 0.3:
            a = rng.randrange(0, size + 1)
            out.append("skip %d" % a)
            out.append(("skip %d" if rng.random() < 0.5 else "rb %d") % (size - a))
        else:
            out.append("skip %d" % size)
    rl = out
    if kind == "sock":
        # the object's own view after zero-length and ordinary reads
        out = []
        for l in rl:
            out.append(l)
            if (l.startswith(("ra ", "rb ", "skip ")) and l.split()[-1] == "0") or l == "rs" or rng.random() < 0.03:
                out.append("state")
        rl = out
        if rng.random() < 0.3:
            wl.append("state")
    rl.append("r u8")      # nothing may be left
    rl.append("rb 7")
    return wl + rl


def cross_case(rng, kind):
    """bytes written in one way, read with unrelated types/orders: the readers on arbitrary data"""
    wl = ["new %s %s" % (kind, rng.choice(["def"] + ORDERS))]
    wl.append("wb " + hexs(rbytes(rng, rng.randrange(0, 120))))
    if rng.random() < 0.5:
        ty = rng.choice(TYPES)
        wl.append(arr_line(rng, ty, rng.randrange(0, 20)))
    rl = ["reader " + rng.choice(["def"] + ORDERS)]
    for _ in range(rng.randrange(1, 40)):
        r = rng.random()
        if r < 0.15:
            rl.append("rendian " + rng.choice(ORDERS))
        elif r < 0.8:
            rl.append("r " + rng.choice(TYPES))
        elif r < 0.88:
            rl.append("skip %d" % rng.randrange(0, 6))
        elif r < 0.95:
            rl.append("rb %d" % rng.randrange(0, 12))
        elif r < 0.975:
            rl.append("rs")
        else:
            rl.append("ra %s %d" % (rng.choice(TYPES), rng.randrange(0, 6)))
    return wl + rl


def scalar_grid():
    """every type x every start order x every kind on its special values, with a switch in the middle"""
    cases = []
    for kind in KINDS:
        for ty in TYPES:
            for o in ["def"] + ORDERS:
                vs = special_values(ty)
                c = ["new %s %s" % (kind, o)] + ["w %s %s" % (ty, hv(ty, v)) for v in vs]
                o2 = {"def": "big", "big": "little", "little": "native", "native": "big"}[o]
                c += ["endian " + o2] + ["w %s %s" % (ty, hv(ty, v)) for v in vs[:4]]
                c += ["reader " + o] + ["r " + ty] * len(vs) + ["rendian " + o2] + ["r " + ty] * 4 + ["r " + ty]
                cases.append(c)
    return cases


def array_grid(rng, lengths):
    """Array<T> of every element type, every listed length, in each explicit order, on each class"""
    cases = []
    for kind in KINDS:
        for ty in TYPES:
            for o in ORDERS:
                c = ["new %s %s" % (kind, o)]
                rd = ["reader " + o]
                for i, n in enumerate(lengths):
                    c.append(arr_line(rng, ty, n))
                    if kind != "sb" and i % 2 == 0:
                        rd.append("ra %s %d" % (ty, n))
                        continue
                    rd.extend(["r " + ty] * min(n, 3))
                    if n > 3:
                        rd.append("rb %d" % ((n - 3) * WIDTH[ty]))
                cases.append(c + rd + ["r u8"])
    return cases


def reuse_grid(rng):
    """one Array<T> object per (class, element type, start order) written repeatedly: same order twice, then after a
    switch to each other order, then back — the caller's array is dumped after every write"""
    cases = []
    for kind in KINDS:
        for ty in TYPES:
            for o in ORDERS:
                n = rng.choice([1, 2, 3, 5, 8])
                others = [x for x in ORDERS if x != o]
                c = ["new %s %s" % (kind, o), "av 0 %s" % arr_line(rng, ty, n)[3:], "wv 0", "wv 0"]
                rd = ["reader " + o] + ["r " + ty] * (2 * n)
                for o2 in others + [o]:
                    c += ["endian " + o2, "wv 0"]
                    rd += ["rendian " + o2] + ["r " + ty] * n
                cases.append(c + rd + ["r u8"])
    return cases


def special_grid(rng):
    """Array<String> in every order on every class; a StreamBuffer written into itself at every small size
    (before and after its storage has grown); hostile and exact length prefixes for File/Socket >> String"""
    cases = []
    for kind in KINDS:
        for o in ["def"] + ORDERS:
            ss = [b"ab", b"c", b"", rbytes(rng, 30), b"\0x\0"]
            c = ["new %s %s" % (kind, o), "was " + " ".join(hexs(x) for x in ss), "was", "was -", "w i16 0102",
                 "was " + hexs(rbytes(rng, 5)), "endian big", "was 6162 63", "endian little", "was 6162 63"]
            n = sum(len(x) for x in ss) + 2 + 5 + 3 + 3
            cases.append(c + ["reader " + o, "rb %d" % n, "r u8"])
    for o in ["def"] + ORDERS:
        for n0 in list(range(0, 20)) + [31, 32, 33, 63, 64, 65, 127, 128, 129, 255, 256, 257]:
            c = ["new sb " + o]
            if n0:
                c.append("wb " + hexs(rbytes(rng, n0)))
            c += ["wself", "wselfpart %d %d" % (rng.randrange(0, 2 * n0 + 1), rng.randrange(0, 2 * n0 + 1)), "wself",
                  "w i32 01020304", "wself"]
            cases.append(c + ["reader " + o, "rb %d" % (8 * n0 + 8), "rb 100000", "r u8"])
    for o in ["def"] + ORDERS:
        # char*, char[N] and T[N] (hunt round 3): C strings and C arrays, not values of the generic operator
        for kind in KINDS:
            c = ["new %s %s" % (kind, o), "wc 616263", "wc -", "wc 61006200", "wca 616263", "wca -", "wca 610062", "endian big", "wc 616263", "wca 616263"]
            cases.append(c + ["reader " + o, "rb 64", "r u8"])
        for ty in [x for x in TYPES if x != "ch"]:
            c = ["new sb " + o]
            rd = ["reader " + o]
            for n in (1, 2, 3, 8):
                c.append("wcarr" + arr_line(rng, ty, n)[2:])
                rd += ["r " + ty] * n
            c.append("endian big")
            rd.append("rendian big")
            for n in (2, 5):
                c.append("wcarr" + arr_line(rng, ty, n)[2:])
                rd += ["r " + ty] * n
            cases.append(c + rd + ["r u8"])
    for kind in ("file", "sock"):
        for o in ["def"] + ORDERS:
            # Stack<T>, Queue<T>, StreamBuffer objects (derived from Array) written and read back (hunt round 4)
            for ty in TYPES:
                n = rng.choice([1, 2, 3, 7])
                c = ["new %s %s" % (kind, o), "wd stack " + arr_line(rng, ty, n)[3:], "wd queue " + arr_line(rng, ty, 2)[3:], "wd stack %s -" % ty,
                     "wdsb 0000000100020304", "wdsb -", "endian big", "wd queue " + arr_line(rng, ty, n)[3:]]
                rd = ["reader " + o, "rd queue %s %d" % (ty, n), "rd stack %s 2" % ty, "rd stack %s 0" % ty, "rb 8", "rendian big", "rd stack %s %d" % (ty, n), "r u8"]
                cases.append(c + rd)
    for kind in ("file", "sock"):
        for o in ORDERS:
            # length-prefixed strings with NULs inside read back whole on both classes
            for sv in (b"ab\0cd", b"\0", b"\0\0x", b"abc\0"):
                cases.append(["new %s %s" % (kind, o), "w i32 %08x" % len(sv), "ws " + hexs(sv), "w u8 7e", "reader " + o, "rs", "r u8", "r u8"])
    for o in ["def"] + ORDERS:
        # zero-length socket reads of every kind between two values (hunt D5): the socket must stay healthy
        for ty in TYPES:
            c = ["new sock " + o, "w i32 00000007", "wa %s -" % ty, "wb -", "ws -", "was", "state", "w u32 00000000", "w i32 00000008",
                 "reader " + o, "r i32", "state", "ra %s 0" % ty, "state", "rb 0", "skip 0", "state", "rs", "state", "r i32", "state", "r u8"]
            cases.append(c)
    for kind in ("file", "sock"):
        for o in ORDERS:
            for pre in (0, 1, 3, 5, 0x7fffffff, 0x80000000, 0xffffffff, 0xfffffffe, 0x01000000, 0x00000100):
                c = ["new %s %s" % (kind, o), "w u32 %08x" % pre, "wb 6162630064", "reader " + o, "rs", "rb 9"]
                cases.append(c)
    return cases


def fragment(rng, case):
    """the same case with the reader's peer delivering the bytes in pieces: `reader e` -> `readerf e cut...`; a cut is
    used modulo (stream length + 1), so large random numbers are uniform over the stream (most fall inside a value)"""
    out = []
    for l in case:
        if l.startswith("reader "):
            k = rng.choice([1, 1, 2, 3, 5, 8, 16, 40])
            l = "readerf " + l[7:] + "".join(" %d" % rng.randrange(0, 10 ** 9) for _ in range(k))
        out.append(l)
    return out


def fragment_grid(rng):
    """Socket readers fed in pieces (seed round 4): every multi-byte type x every order x EVERY cut offset inside the
    value (scalar `r`, element of `ra`, element of `rd`), two and three cuts inside one value, a cut in every value of
    a mixed sequence, cuts on value boundaries only, a cut inside the length prefix / the body of `rs`, `rb`/`skip` over cuts"""
    cases = []
    multi = [t for t in TYPES if WIDTH[t] > 1]
    for ty in multi:
        w = WIDTH[ty]
        for o in ["def"] + ORDERS:
            v = int.from_bytes(bytes(range(0x81, 0x81 + w)), "big")
            for cut in range(1, w):
                # one leading byte, so the value sits at offset 1
                cases.append(["new sock " + o, "w u8 5a", "w %s %s" % (ty, hv(ty, v)), "w u8 a5",
                              "readerf %s %d" % (o, 1 + cut), "r u8", "r " + ty, "r u8", "r u8"])
            n = 3
            arr = arr_line(rng, ty, n)
            for cut in sorted(set([1, w - 1, w + 1, 2 * w - 1, 2 * w + w // 2, 3 * w - 1])):
                cases.append(["new sock " + o, arr, "w u8 a5", "readerf %s %d" % (o, cut), "ra %s %d" % (ty, n), "r u8", "r u8"])
            cases.append(["new sock " + o, "wd stack " + arr[3:], "readerf %s %d %d" % (o, w // 2, 2 * w + 1), "rd queue %s %d" % (ty, n), "r u8"])
            if w >= 4:
                # every byte of the value in its own piece; two cuts in one value
                cases.append(["new sock " + o, "w %s %s" % (ty, hv(ty, v)), "readerf " + o + "".join(" %d" % i for i in range(1, w)), "r " + ty, "r u8"])
                cases.append(["new sock " + o, "w %s %s" % (ty, hv(ty, v)), "w %s %s" % (ty, hv(ty, v ^ 0x55)), "readerf %s 1 %d %d" % (o, w - 1, w + 2), "r " + ty, "r " + ty, "r u8"])
    for o in ["def"] + ORDERS:
        for rep in range(6):
            # a mixed sequence with one cut inside every value / only on the boundaries / order switches between
            wl, rl, cuts_in, cuts_on, pos = ["new sock " + o], [], [], [], 0
            for _ in range(rng.randrange(2, 12)):
                if rng.random() < 0.25:
                    o2 = rng.choice(ORDERS)
                    wl.append("endian " + o2)
                    rl.append("rendian " + o2)
                ty = rng.choice(multi)
                w = WIDTH[ty]
                wl.append("w %s %s" % (ty, hv(ty, rvalue(rng, ty))))
                rl.append("r " + ty)
                cuts_in.append(pos + rng.randrange(1, w))
                cuts_on.append(pos)
                pos += w
            cuts = cuts_in if rep % 3 == 0 else cuts_on if rep % 3 == 1 else cuts_in + cuts_on
            cases.append(wl + ["readerf " + o + "".join(" %d" % c for c in cuts)] + rl + ["r u8"])
        for cut in (1, 3, 4, 5, 8, 9):
            cases.append(["new sock " + o, "w i32 00000005", "ws 6162006364", "w u16 0102", "readerf %s %d" % (o, cut), "rs", "state", "r u16", "r u8"])
            cases.append(["new sock " + o, "wb 000102030405060708090a0b", "w u32 01020304", "readerf %s %d %d" % (o, cut, cut + 5), "rb 6", "skip 6", "r u32", "state", "r u8"])
    return cases


def gen(rng, tier):
    quick = tier == "quick"
    cases = []
    cases += fragment_grid(rng)
    for i in range(150 if quick else 1500):
        cases.append(fragment(rng, roundtrip_case(rng, "sock", rng.randrange(1, 40))))
    for i in range(40 if quick else 400):
        cases.append(fragment(rng, cross_case(rng, "sock")))
    for kind in ("sb", "file"):
        for i in range(5 if quick else 50):
            cases.append(fragment(rng, roundtrip_case(rng, kind, rng.randrange(1, 20))))   # the op is `reader` for the other classes
    cases += scalar_grid()
    cases += reuse_grid(rng)
    cases += special_grid(rng)
    cases += array_grid(rng, [0, 1, 2, 3, 7, 8, 9, 31, 32, 33, 64, 99, 100] if quick else list(range(0, 101)))
    for kind in KINDS:
        for i in range(300 if quick else 4000):
            cases.append(roundtrip_case(rng, kind, rng.randrange(1, 65)))
        for i in range(40 if quick else 400):
            cases.append(roundtrip_case(rng, kind, 64, p_switch=0.5))
        for i in range(200 if quick else 3000):
            cases.append(cross_case(rng, kind))
    global _LAST_CASES
    _LAST_CASES = cases
    return cases


_LAST_CASES = []


def extra(ctx):
    """whole-case pass of the independent python serializer over corpus + generated cases, judged on the
    implementation alone; failures are shrunk with the whole case as the replay"""
    import sys
    from lib import core, engine
    me = sys.modules[__name__]
    cases = engine.corpus_cases(ID) + list(_LAST_CASES)
    lines, starts = engine.flatten(cases)
    impl, crash, err = core.run_impl(ctx["exe"], lines, timeout=600)
    fails = []
    checked = 0
    for ci, c in enumerate(cases):
        s0 = starts[ci]
        bad = None
        exp_all = []
        for j, l in enumerate(c):
            exp = _reference(l)
            exp_all.append(exp if exp is not None else "(no opinion)")
            i = s0 + 1 + j
            if exp is None or i >= len(impl):
                continue
            checked += 1
            if impl[i] != exp and bad is None:
                bad = j
        if bad is not None and len(fails) < 3:
            f = engine.Failure("diverge", c, impl[s0:s0 + 1 + len(c)], ["case"] + exp_all)
            g = engine.shrink(me, ctx["exe"], f)
            g.clause = "independent reference (%s) disagrees with the implementation" % REFERENCE_NAME
            g.name = "reference oracle over whole cases (tools/props/c16.py extra)"
            g.has_input = True
            fails.append(g)
    ctx["stats"]["reference_checked_ops"] = checked
    return fails


def nontrivial(case):
    wrote = any(l.startswith("wd ") and WIDTH.get(l.split()[2], 1) > 1 and l.split()[-1] != "-" for l in case) or \
        any(l.startswith(("w ", "wa ", "wcarr ")) and WIDTH.get(l.split()[1], 1) > 1 and l.split()[-1] != "-" for l in case) or \
        any(l.startswith("av ") and WIDTH.get(l.split()[2], 1) > 1 and l.split()[-1] != "-" for l in case)
    read = any(l.startswith("r ") for l in case)
    return wrote and read


def distribution(cases):
    d = {"cases_by_class": {}, "ops": {}, "scalar_writes_by_type": {}, "array_writes_by_type": {}, "array_len_hist": {},
         "writes_by_order_in_force": {}, "reads_by_order_in_force": {}, "order_switches_mid_stream": 0, "nan_values": 0,
         "min_max_int_values": 0, "values_per_case_hist": {}, "max_values_in_a_case": 0,
         "array_variable_writes": {}, "array_rewrites_same_object": 0, "array_rewrites_after_order_switch": 0,
         "string_array_writes_by_order": {}, "c_array_writes_by_order": {}, "array_derived_object_writes": 0, "self_writes": 0, "socket_state_observations": 0, "zero_length_socket_reads": 0, "array_reads_by_order_in_force": {},
         "fragmented_socket_readers_by_order": {}, "fragment_cuts_per_reader_hist": {}}
    for c in cases:
        kind = None
        we = re_ = None
        nvals = 0
        slots = {}
        for l in c:
            t = l.split()
            op = t[0]
            d["ops"][op] = d["ops"].get(op, 0) + 1
            if op == "new":
                kind = t[1]
                d["cases_by_class"][kind] = d["cases_by_class"].get(kind, 0) + 1
                we = t[2] if t[2] != "def" else ("little" if kind == "sb" else "native")
            elif op == "endian":
                we = t[1]
                if nvals:
                    d["order_switches_mid_stream"] += 1
            elif op in ("reader", "readerf"):
                re_ = t[1] if t[1] != "def" else ("little" if kind == "sb" else "native")
                if op == "readerf" and kind == "sock":
                    d["fragmented_socket_readers_by_order"][re_] = d["fragmented_socket_readers_by_order"].get(re_, 0) + 1
                    b = str(len(t) - 2) if len(t) - 2 <= 3 else "4-8" if len(t) - 2 <= 8 else ">8"
                    d["fragment_cuts_per_reader_hist"][b] = d["fragment_cuts_per_reader_hist"].get(b, 0) + 1
            elif op == "rendian":
                re_ = t[1]
            elif op == "w":
                nvals += 1
                d["scalar_writes_by_type"][t[1]] = d["scalar_writes_by_type"].get(t[1], 0) + 1
                d["writes_by_order_in_force"][we] = d["writes_by_order_in_force"].get(we, 0) + 1
                v = int(t[2], 16) % (1 << (8 * WIDTH[t[1]]))
                if t[1] == "f32" and (v & 0x7f800000) == 0x7f800000 and (v & 0x7fffff):
                    d["nan_values"] += 1
                if t[1] == "f64" and (v & 0x7ff0000000000000) == 0x7ff0000000000000 and (v & 0xfffffffffffff):
                    d["nan_values"] += 1
                if t[1][0] in "iu" and WIDTH[t[1]] > 1:
                    top = 1 << (8 * WIDTH[t[1]])
                    if v in (top - 1, top >> 1, (top >> 1) - 1):
                        d["min_max_int_values"] += 1
            elif op == "wa":
                nvals += 1
                n = 0 if t[2] == "-" else len(t[2]) // 2 // WIDTH[t[1]]
                key = "%s@%s" % (t[1], we)
                d["array_writes_by_type"][key] = d["array_writes_by_type"].get(key, 0) + 1
                b = "0" if n == 0 else "1" if n == 1 else "2-9" if n < 10 else "10-49" if n < 50 else "50-99" if n < 100 else "100"
                d["array_len_hist"][b] = d["array_len_hist"].get(b, 0) + 1
            elif op in ("ws", "wb", "wz", "wc", "wca", "wdsb"):
                nvals += 1
                if op == "wdsb":
                    d["array_derived_object_writes"] += 1
            elif op == "wd":
                nvals += 1
                d["array_derived_object_writes"] += 1
            elif op == "wcarr":
                nvals += 1
                d["c_array_writes_by_order"][we] = d["c_array_writes_by_order"].get(we, 0) + 1
            elif op == "was":
                nvals += 1
                d["string_array_writes_by_order"][we] = d["string_array_writes_by_order"].get(we, 0) + 1
            elif op in ("wself", "wselfpart"):
                nvals += 1
                d["self_writes"] += 1
            elif op == "state":
                d["socket_state_observations"] += 1
            elif op in ("ra", "rb", "skip") and t[-1] == "0" and kind == "sock":
                d["zero_length_socket_reads"] += 1
                if op == "ra":
                    d["array_reads_by_order_in_force"][re_] = d["array_reads_by_order_in_force"].get(re_, 0) + 1
            elif op == "ra":
                d["array_reads_by_order_in_force"][re_] = d["array_reads_by_order_in_force"].get(re_, 0) + 1
            elif op == "av":
                slots[int(t[1]) % 4] = [t[2], 0, None]
            elif op == "wv":
                nvals += 1
                sl = slots.get(int(t[1]) % 4)
                if sl:
                    sl[1] += 1
                    key = "%s@%s" % (sl[0], we)
                    d["array_variable_writes"][key] = d["array_variable_writes"].get(key, 0) + 1
                    if sl[1] > 1:
                        d["array_rewrites_same_object"] += 1
                        if sl[2] != we:
                            d["array_rewrites_after_order_switch"] += 1
                    sl[2] = we
            elif op == "r":
                d["reads_by_order_in_force"][re_] = d["reads_by_order_in_force"].get(re_, 0) + 1
        b = "1-8" if nvals <= 8 else "9-32" if nvals <= 32 else "33-64" if nvals <= 64 else ">64"
        d["values_per_case_hist"][b] = d["values_per_case_hist"].get(b, 0) + 1
        d["max_values_in_a_case"] = max(d["max_values_in_a_case"], nvals)
    return d


# ------------------------------------------------------------------ independent reference (python int.to_bytes / from_bytes)

HARNESS_TIMEOUT = 120
SHRINK_KEEP_FIRST = 1   # every case starts with `new …`, which also resets the stateful reference below

REFERENCE_NAME = "python3 int.to_bytes / int.from_bytes serializer written from the property statement (sys.byteorder for NATIVE)"
_ref = {"kind": None}


def _order(o):
    import sys
    return sys.byteorder if o == "native" else o


def reference(line):
    """Independent oracle used by engine.fails_single (shrinking, --replay), which feeds the lines of ONE case in
    order.  The oracle is stateful (the byte order in force and the bytes written so far), so a failure only makes
    sense together with its whole case: engine.reference_pass would record the single failing line as the replay,
    therefore the bulk pass is done by `extra` below (whole cases) and this hook gives no opinion there."""
    import sys
    if sys._getframe(1).f_code.co_name == "reference_pass":
        return None
    return _reference(line)


def _reference(line):
    """expected implementation output; stateful over the lines of one case (a case starts with `new`)"""
    t = line.split()
    op = t[0]
    s = _ref
    try:
        if op == "new":
            s.clear()
            s.update(kind=t[1], we=(t[2] if t[2] != "def" else ("little" if t[1] == "sb" else "native")), out=b"", reading=False, vars={})
            return "ok"
        if s.get("kind") is None:
            return None
        if op == "endian":
            if s["reading"]:
                return "closed"
            s["we"] = t[1]
            return "ok"
        if op == "state":
            if s["kind"] != "sock":
                return "na"
            return "ok error=0" + (" available=%d" % len(s["rest"]) if s["reading"] else "")
        if op == "av":
            s["vars"][int(t[1]) % 4] = (t[2], unhex(t[3]))
            return "ok"
        if op == "wv":
            if s["reading"]:
                return "closed"
            if int(t[1]) % 4 not in s["vars"]:
                return "no-var"
            ty, blob = s["vars"][int(t[1]) % 4]
            w = WIDTH[ty]
            b = b""
            dump = b""
            for i in range(0, len(blob), w):
                v = int.from_bytes(blob[i:i + w], "big")
                if ty == "b":
                    v = 1 if v else 0
                b += v.to_bytes(w, _order(s["we"]))
                dump += v.to_bytes(w, "big")      # the program's array keeps its values
            s["out"] += b
            return hexs(b) + " " + hexs(dump)
        if op in ("wself", "wselfpart"):
            if s["reading"]:
                return "closed"
            if s["kind"] != "sb":
                return "na"
            if op == "wself":
                b = s["out"]
            else:
                a = int(t[1]) % (len(s["out"]) + 1)
                n = int(t[2]) % (len(s["out"]) - a + 1)
                b = s["out"][a:a + n]
            s["out"] += b
            return hexs(b)
        if op == "was":
            if s["reading"]:
                return "closed"
            b = b"".join(unhex(x) for x in t[1:])     # an array of strings is the strings' bytes, whatever the byte order
            s["out"] += b
            return hexs(b)
        if op in ("wd", "wdsb"):
            if s["reading"]:
                return "closed"
            if s["kind"] == "sb":
                return "na"
            if op == "wdsb":
                b = unhex(t[1])
            else:
                ty = t[2]
                w = WIDTH[ty]
                blob = unhex(t[3])
                b = b""
                for i in range(0, len(blob), w):
                    v = int.from_bytes(blob[i:i + w], "big")
                    if ty == "b":
                        v = 1 if v else 0
                    b += v.to_bytes(w, _order(s["we"]))      # a Stack/Queue is an array: its items, never the handle
            s["out"] += b
            return hexs(b)
        if op in ("wca", "wcarr"):
            if s["reading"]:
                return "closed"
            if op == "wcarr" and s["kind"] != "sb":
                return "na"
            if op == "wca":
                b = unhex(t[1]).split(b"\0")[0]
            else:
                ty = t[1]
                w = WIDTH[ty]
                blob = unhex(t[2])
                b = b""
                for i in range(0, len(blob), w):
                    v = int.from_bytes(blob[i:i + w], "big")
                    if ty == "b":
                        v = 1 if v else 0
                    b += v.to_bytes(w, _order(s["we"]))       # items in the order of the array
            s["out"] += b
            return hexs(b)
        if op in ("w", "wa", "wb", "ws", "wz", "wc"):
            if s["reading"]:
                return "closed"
            if op == "w":
                ty = t[1]
                w = WIDTH[ty]
                v = int(t[2], 16)
                v = (1 if v else 0) if ty == "b" else v % (1 << (8 * w))
                b = v.to_bytes(w, _order(s["we"]))
            elif op == "wa":
                ty = t[1]
                w = WIDTH[ty]
                blob = unhex(t[2])
                b = b""
                for i in range(0, len(blob), w):
                    v = int.from_bytes(blob[i:i + w], "big")
                    if ty == "b":
                        v = 1 if v else 0
                    b += v.to_bytes(w, _order(s["we"]))
            elif op in ("wz", "wc"):
                b = unhex(t[1]).split(b"\0")[0]
            else:
                b = unhex(t[1])
            s["out"] += b
            return hexs(b)
        if op in ("reader", "readerf"):     # the pieces in which a socket's bytes arrive do not change what is read
            if s["reading"]:
                return "closed"
            s["reading"] = True
            s["re"] = t[1] if t[1] != "def" else ("little" if s["kind"] == "sb" else "native")
            s["rest"] = s["out"]
            return "ok %d" % len(s["out"])
        if not s["reading"]:
            return "not-reading"
        if op == "rendian":
            s["re"] = t[1]
            return "ok"
        if op == "r":
            ty = t[1]
            w = WIDTH[ty]
            if len(s["rest"]) < w:
                return "eof"
            if ty == "b" and s["kind"] != "sb" and s["rest"][0] > 1:
                return "na-bool"
            v = int.from_bytes(s["rest"][:w], _order(s["re"]))
            if ty == "b":
                v = 1 if v else 0
            s["rest"] = s["rest"][w:]
            return "%0*x" % (2 * w, v)
        if op in ("ra", "rd"):
            ty = t[1] if op == "ra" else t[2]
            w = WIDTH[ty]
            n = int(t[2] if op == "ra" else t[3])
            if s["kind"] == "sb":
                return "na"
            if len(s["rest"]) < n * w:
                return "eof"
            if ty == "b" and any(c > 1 for c in s["rest"][:n]):
                return "na-bool"
            vals = b"".join(int.from_bytes(s["rest"][i * w:(i + 1) * w], _order(s["re"])).to_bytes(w, "big") for i in range(n))
            s["rest"] = s["rest"][n * w:]
            return hexs(vals)
        if op == "rsame":
            return None
        if op in ("rb", "skip"):
            n = int(t[1]) % (len(s["rest"]) + 1)
            b = s["rest"][:n]
            s["rest"] = s["rest"][n:]
            return hexs(b) if op == "rb" else "ok"
        if op == "rs":
            # a length-prefixed string; on anything else there is no standard meaning: no opinion, but keep the position in step
            if s["kind"] == "sb" or len(s["rest"]) < 4:
                return "na"
            n = int.from_bytes(s["rest"][:4], _order(s["re"]))
            left = len(s["rest"]) - 4
            if n >= 1 << 31:
                s["rest"] = s["rest"][4:]
                return None
            if n > left:
                if s["kind"] == "sock":
                    return "na"
                s["rest"] = b""
                return None
            b = s["rest"][4:4 + n]
            s["rest"] = s["rest"][4 + n:]
            return "%d %s" % (len(b), hexs(b))
    except Exception:
        s["kind"] = None
        return None
    return None


def simplify_line(line):
    """shrinking: shorter arrays / strings"""
    t = line.split()
    out = []
    if t[0] == "av" and t[3] != "-":
        w = WIDTH.get(t[2], 1)
        n = len(t[3]) // 2 // w
        for k in (1, n // 2):
            if 0 < k < n:
                out.append("av %s %s %s" % (t[1], t[2], t[3][:2 * w * k]))
    if t[0] == "wa" and t[2] != "-":
        w = WIDTH.get(t[1], 1)
        n = len(t[2]) // 2 // w
        for k in (0, 1, n // 2):
            if k < n:
                out.append("wa %s %s" % (t[1], t[2][:2 * w * k] or "-"))
    return out


RULE = ("case = one stream object (StreamBuffer+StreamBufferReader | File | Socket over a socketpair): a write history of typed "
        "scalars (12 C++ types, arbitrary bit patterns incl. NaN payloads, min/max), Array<T> of 0..100 elements (also one Array object written "
        "repeatedly, with and without a switch in between; the caller's array is dumped after every such write and must be unchanged), String/ByteArray/"
        "const char*, with byte-order switches (BIG/LITTLE/NATIVE/default) at random points; every write prints the bytes it appended "
        "(observed outside asl); also Array<String>, a StreamBuffer written into itself (whole and a slice), exact and hostile int32 length prefixes "
        "before >> String; then a reader over everything written reads the same types back in the same orders, File/Socket arrays also with >> Array<T> (or unrelated "
        "types/orders in the cross cases); Socket readers also fed IN PIECES (`readerf`: a peer thread writes the observed bytes cut at arbitrary offsets, each further piece only "
        "when the reader has drained the previous ones, so a value containing a cut arrives in two or more recv() calls): every multi-byte type x order x every cut offset inside a scalar / an Array element, several cuts in one value, random cuts over random histories. non-trivial = distinct case that writes at least one multi-byte value and reads a scalar")

EXHAUSTIVE = {"quick": "every type x {default,BIG,LITTLE,NATIVE} x {StreamBuffer,File,Socket} on the special values (0, 1, -1, min, max, NaN payloads...) with a mid-stream switch; "
                       "Array<T> for every type x order x class at lengths 0,1,2,3,7,8,9,31,32,33,64,99,100",
              "thorough": "the same scalar grid; Array<T> for every type x order x class at every length 0..100"}

KNOWN = [{"key": "string-read-not-inverse",
          "desc": "File/Socket operator>>(String&) is not the inverse of operator<<(const String&); the same holds per item for >> Array<String> vs << Array<String>",
          "case": ["new file native", "ws 68656c6c6f20776f726c64", "reader native", "rsame 68656c6c6f20776f726c64"]}]
# excluded input class (exactly): `>> String` applied to bytes written by `<< String` with the expectation of getting the
# string back (op `rsame`, never generated).  `rs` on arbitrary bytes (incl. hostile lengths) IS generated and modelled.

TRUSTED = ["tools/props/c16.py translate(): regex extraction (byte-order test of every operator<< / operator>>, byte count of the "
           "non-swapping Array<T> branch, the memory path of each generic operator<<(const T&) statement by statement (which object swapBytes and write touch), the byte counts / pointer advances of StreamBuffer::write, StreamBufferReader::read(n)/skip, File::read/write, Socket_::skip, shift/index terms and _ptr advance of read2/4/8, readN dispatch of the operator>> overloads, the index expression of swapBytes, "
           "default byte orders, IsArithmetic<T> via a second probe, the tests and counts of File/Socket operator>>(Array<T>&); whole-body shape checks (TranslateError otherwise, nothing generated) "
           "of the raw-byte overloads, operator<<(char*), StreamBuffer's operator<<(const T (&)[N]), the put_/get_ Array dispatch of the generic "
           "File/Socket operators, File::operator>>(String&), Socket::readString, the size<=0 guard of Socket_::read) from include/asl/{defs,StreamBuffer,File,Socket}.h and src/Socket.cpp into lean/Gen/StreamGen.lean; "
           "a compiled 10-line probe program for ASL_OTHER_ENDIAN, the compiler's byte order and sizeof of the 12 types",
           "the harness observes written bytes outside asl (buffer content, POSIX pread on the temp file, recv on the raw socketpair peer) "
           "and feeds readers from those observed bytes"]
ASSUMPTIONS = ["memcpy between a scalar object and a byte array preserves every bit pattern (incl. signalling NaNs); float/double objects are "
               "copied without alteration by `T y = cond ? bytesSwapped(x) : x` (File/Socket templates) — exercised by K with NaN payloads",
               "fwrite/fread (File::write/read) and send/read on a connected stream socket (Socket_::write/read loops) transfer exactly the "
               "requested bytes in order (C17 / C10 model the partial-transfer loops)",
               "Array<byte>::append (StreamBuffer::write) appends exactly the given bytes (C01)",
               "strlen for `<< const char*` and String::length for `<< String`",
               "File/Socket `>> bool` is only used on bytes 0/1 (any other byte gives the bool object an invalid representation: outside the property)"]
TECHNIQUE = ("Lean 4 theorems (induction over write/read histories, positional-notation lemmas, OR/shift = Horner sums) about an executable "
             "model instantiated with definitions regenerated from the source + differential correspondence check on StreamBuffer, File and a socketpair")
LEVEL_TEXT = ("Proved in Lean 4 for all three classes, all 12 scalar types, all byte orders (BIG/LITTLE/NATIVE), every valid bit pattern "
              "(floats as bits, so NaN payloads included), every array length and every history with byte-order switches anywhere: "
              "each scalar write appends exactly sizeof(T) bytes equal to the textbook big/little-endian encoding; Array<T> appends the "
              "concatenation of the element encodings, n*sizeof(T) bytes, and the block-copy branch reads exactly the array's storage; a whole "
              "history is the concatenation of the item encodings under the order in force (write_canonical) and a switch changes only later "
              "bytes (switch_affects_only_later) and, on arbitrary data, only later reads (read_switch_affects_only_later); StreamBufferReader/File/Socket reads consume sizeof(T) bytes and return the number they denote "
              "(scalar_read_spec, for arbitrary data), read2/4/8 index only inside the bytes they consume; reading the same types in the same "
              "orders returns the original values and leaves the rest untouched for one value (get_put) and for whole histories (read_back); "
              "writing the same array again, also after a switch, gives its canonical bytes again (array_rewrite_canonical); "
              "Array<String> appends the strings' bytes in every order and never object memory (string_array_canonical); File/Socket >> Array<T> "
              "(length set by the caller) is the inverse of << Array<T> for every type, order and length, item-by-item and one-block branch alike (array_get_put); "
              "(string_read_total is a weaker corollary of string_read_spec, kept) "
              "StreamBuffer << T[N] with T other than char is the items' encodings in array order in every byte order (carray_canonical; File/Socket have no T[N] "
              "operator and a char[N] is a C string for operator<<, modelled as .cstr: the history theorems write_canonical / read_back / read_back_array_op carry the "
              "well-formedness hypothesis WF that a .carray occurs only on StreamBuffer with T != char); "
              "whole histories also read back when every Array<T> is read with one stream >> Array<T> (read_back_array_op, File/Socket); >> String as a function of "
              "the bytes: the next n bytes for the int32 prefix n, 0 when negative, File clamped to what exists (string_read_spec); "
              "length-prefixed strings, NULs included, read back on File and Socket (string_read_back). "
              "A Socket's reads do not depend on how its bytes are fragmented: the receive loop of Socket_::read(void*, int) over pending pieces (any partition into non-empty pieces, "
              "any cut offsets) returns the first n bytes of the concatenation (socket_recv_loop_spec, socket_read_bytes_spec), a whole read history over pieces equals the history on the "
              "concatenation (socket_read_frag_eq_flat), two partitions of one stream give the same values, order and unread bytes (socket_read_fragment_independent, socket_read_any_cuts), "
              "and a written history delivered cut anywhere reads back the original values (socket_read_back_any_cuts); the loop and its returned variable are regenerated (gen_socket_read_returns_total). "
              "A write leaves its argument unchanged: the generic operator<<(const T&) of each class is modelled as the list of memory steps the translator finds in its body "
              "(temporary copy / swapBytes on the temporary or in place on the caller's object / write from either: Gen WStmt, sbPath, filePath, sockPath; obligation gen_writer_paths), "
              "Array<T> hands every element itself (a reference) to it in the item-by-item branch; scalar_write_mem and array_write_mem show, for every class, type, order, length and content, "
              "that the bytes handed to write are those of the value-level model and that the object's / the array's storage afterwards is the storage before "
              "(array_argument_unchanged: the caller still reads its values); runW_swap_back: an in-place swap that is swapped back would be equivalent, runW_in_place_alters: one that is not "
              "swapped back alters the argument whenever its bytes are not a palindrome (a source changed that way regenerates a different path and the obligations fail; tried on a scratch copy). "
              "The driver's w/wa/wv run these memory-level writers and print the argument afterwards as the harness does from the real object. "
              "Raw bytes and skip: a raw/String/ByteArray write anywhere in a history appends exactly the argument's bytes between the earlier and the later encodings and leaves the order alone (raw_write_spec); "
              "on arbitrary data read(n) returns the next n bytes and skip(n) advances by exactly n, the later reads being those on the remaining data (raw_read_spec, skip_spec; skip = discarded read, skips add up: skip_compose); "
              "a history read back with ANY subset of its items stepped over by skip(size of the item) returns the original values of all the others, with order switches anywhere (read_back_with_skips). "
              "In the model setEndian writes/reads no byte; a raw write appends take(COUNT) of its argument, read(n) returns take(COUNT) and drops ADV, skip(n) drops ADV, with the counts "
              "regenerated from StreamBuffer::write (append(data, COUNT)), StreamBufferReader::read(n) (array length = memcpy count, _ptr += ADV) and skip (_ptr += ADV), File::read/write "
              "(fread/fwrite size*count) and Socket_::skip (a thrown-away read of COUNT bytes): obligation gen_raw_byte_counts (all equal n) — a source advancing by n+1 breaks it; "
              "that append/memcpy/fread/fwrite/fseek/send/recv move exactly those bytes is assumed (ASSUMPTIONS) and exercised by the correspondence check (ops wb/ws/wz/wc/rb/skip, now also skips replacing typed reads in the read-back cases) plus a "
              "translator shape check of those overloads. The byte-order tests, Array byte counts, read2/4/8 shift/index terms, readN "
              "dispatch, swapBytes' index expression, ASL_OTHER_ENDIAN, host byte order and sizeof are regenerated from /repo on every run (G); the overload "
              "set actually selected by C++ for each type and the I/O plumbing are tied to the model by the correspondence check (K) on the three "
              "real classes, with bytes observed outside asl and an independent python serializer as second opinion.")
LEVEL_NOTE = ("Trusted: Lean kernel, the regex translator + compiler probe, the harness. Hypotheses: memcpy/float copies preserve bit patterns, "
              "fwrite/fread/send/read transfer all bytes (partial-transfer loops belong to C17/C10). NATIVE = LITTLE in StreamBufferReader is correct "
              "only on a little-endian host: obligation gen_reader_cond fails on a big-endian build. Only K-validated (no theorem): which C++ overload "
              "is selected per type (the bodies of StreamBuffer's bool/byte/char overloads, of the ByteArray/Array<byte>/String/const char* overloads, of File/Socket >> char/byte and of StreamBufferReader::read(n)/skip are shape-checked by the translator, TranslateError otherwise), setEndian taking effect immediately, default byte orders, "
              "File skip = seek(n, HERE) (fseek) and the Socket send/recv loops behind write(p,n)/read(p,n) (the byte counts of the other raw operations are regenerated: gen_raw_byte_counts; consequences for histories are theorems: raw_write_spec, raw_read_spec, skip_spec, read_back_with_skips). Reads past the end and File/Socket >> bool of a byte other than 0/1 are outside the property "
              "(guarded in the protocol). Fixed defects kept as corpus witnesses: 264bf86 (Array<T> in native order wrote length() bytes), fbcbf17 (a StreamBuffer written into itself read freed "
              "storage), 8a61870 (Array<String> in native order wrote String object memory), e37681a (>> String trusted its length: out-of-bounds write), cdda882 "
              "(>> Array<T> read raw bytes over the Array object), 8331f50 (a zero-length Socket read marked the socket as failed), b125771 (Socket::readString cut the value at the first NUL; "
              "the earlier model had transcribed that truncation as behaviour, string_read_back carried a NUL-free hypothesis for Socket and the generator kept NULs out of "
              "socket strings, which is why K did not see it), 7c56539 (char*, char[N] and T[N] taken by the generic operator<<: pointer value written, text/items reversed). e2ca1c4 (File/Socket << and >> of an object "
              "derived from Array<T> — Stack, Queue, StreamBuffer — used the raw memory of the handle; ops wd / wdsb / rd; in the model such an object is the Array it is, so "
              "array_canonical / array_get_put apply; that C++ overload resolution reaches the Array overload is K + translator shape check). The stream object's own "
              "view (Socket error(), available() = unread bytes) has no theorem: the model has no failure state for reads of bytes that are there; the harness "
              "checks error() after every socket operation and the `state` op compares available() with the model's unread byte count (K only). That a Socket read does not depend on the pieces in which the bytes arrive is now a theorem about the model the driver runs after `readerf` (pending pieces, sockRecvLoop = the receive loop of Socket_::read(void*, int) recognised statement by statement by G, returned variable regenerated as sockReadRet: socket_recv_loop_spec, socket_read_bytes_spec, socket_read_frag_eq_flat, socket_read_fragment_independent, socket_read_any_cuts, socket_read_back_any_cuts, gen_socket_read_returns_total; socket_last_chunk_depends_on_pieces shows a last-chunk return would not do); assumed and K only: that one recv() hands out a prefix of the pending bytes and at least one byte unless the peer closed (pieces are non-empty: hypothesis Live); Socket >> String over pieces (prefix and body cut anywhere, readString cut to the returned count) likewise: socket_string_read_fragment_independent, op `rs` after `readerf`. File/Socket >> Array<String> is unmodelled and has no op (it is one >> String per item, so it shares the known finding below: "
              "<< Array<String> writes no lengths, >> expects one int32 length per item; gen_array_readers only shows that this path goes item by item). The out-of-bounds write "
              "repaired by e37681a is not expressible over lists: it is carried by the translator's whole-body shape check of File::operator>>(String&) and ASan. "
              "Not exercised: >> StreamBuffer through get_, const T[N] / const char[N] objects (string literals go to the const char* overload). "
              "Known finding string-read-not-inverse: >> String expects an int32 length that << String does not write "
              "(library format decision; probe `rsame`, printed as KNOWN-FINDING; exactly that expectation is excluded from the generator, `rs` on arbitrary bytes is generated). "
              "A write of the buffer's own bytes (wself) is modelled as a ByteArray write whose value is the current content.")
