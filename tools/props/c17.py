"""C17 — File / TextFile / Directory::copy,move return exactly what was written: plugin for tools/check.py"""
import os
import re
import zlib

from lib import cparse
from lib.core import hexs, unhex
from lib.engine import TranslateError

ID = "C17"
PROPS_MODULE = "AslProps.C17"
DRIVER = "c17"

# ------------------------------------------------------------------------------------------------ G

_MODES = {"READ": "read", "WRITE": "write", "APPEND": "append", "RW": "rw"}


def _chain(text, what):
    """`(mode==READ)? STR_PREFIX("rb"): (mode==WRITE)? STR_PREFIX("wb"): (mode==APPEND)? STR_PREFIX("ab"): STR_PREFIX("rb+")`"""
    t = re.sub(r"\s+", "", text)
    m = re.fullmatch(r'\(mode==(\w+)\)\?STR_PREFIX\("([^"]*)"\):\(mode==(\w+)\)\?STR_PREFIX\("([^"]*)"\):'
                     r'\(mode==(\w+)\)\?STR_PREFIX\("([^"]*)"\):STR_PREFIX\("([^"]*)"\)', t)
    if not m:
        raise TranslateError("File::open: unrecognised fopen mode selection (%s): %s" % (what, t[:160]))
    g = m.groups()
    tab = {}
    for k, v in ((g[0], g[1]), (g[2], g[3]), (g[4], g[5])):
        if k not in _MODES or k in tab:
            raise TranslateError("File::open: unknown/duplicate open mode `%s` (%s)" % (k, what))
        tab[k] = v
    rest = [k for k in _MODES if k not in tab]
    if len(rest) != 1:
        raise TranslateError("File::open: mode chain does not leave exactly one default (%s)" % what)
    tab[rest[0]] = g[6]
    for v in tab.values():
        if not re.fullmatch(r"[rwa][bt]?\+?[bt]?", v):
            raise TranslateError("File::open: fopen mode string `%s` is not a C11 mode" % v)
    return tab


def _flat(body):
    """source text without comments and whitespace"""
    body = re.sub(r"/\*.*?\*/", "", body, flags=re.S)
    body = re.sub(r"//[^\n]*", "", body)
    return re.sub(r"\s+", "", body)


def _posix_part(src):
    """the non-_WIN32 half of src/Directory.cpp"""
    i = src.find("#else // Linux")
    if i < 0:
        raise TranslateError("src/Directory.cpp: `#else // Linux` marker not found")
    return src[i:]


def translate(repo):
    tf = cparse.read(repo, "src/TextFile.cpp")
    # ---- readLine(String&)
    body = cparse.find_function(tf, r"bool\s+TextFile::readLine\s*\(\s*String\s*&\s*s\s*\)\s*\{")
    ms = re.findall(r"int\s+chunk\s*=\s*(\d+)\s*;", body)
    if len(ms) != 1:
        raise TranslateError("TextFile::readLine(String&): expected exactly one `int chunk = <n>;`")
    chunk = int(ms[0])
    if chunk < 2:
        raise TranslateError("TextFile::readLine(String&): chunk = %d < 2: fgets(.., chunk, ..) reads no byte, the loop cannot end" % chunk)
    flat = _flat(body)
    shape = ("do{s.resize(m+chunk);char*r=fgets(&s[m],chunk,_file);if(!r){s[m]='\\0';s.fix(m);returnfalse;}"
             "n=(int)strlen(*s+m)+m;if(n>0&&s[n-1]=='\\n'){n--;s[n]='\\0';if(n>0&&s[n-1]=='\\r'){n--;s[n]='\\0';}break;}m=n;}while(1);s.fix(n);returntrue;")
    if shape not in flat:
        raise TranslateError("TextFile::readLine(String&): the fgets loop no longer has the transcribed shape "
                             "(resize m+chunk; fgets(&s[m], chunk); NULL => fix(m), false; n = m + strlen; n > 0 and LF => strip LF then one CR; m = n)")
    # ---- readLine(char)
    rb = _flat(cparse.find_function(tf, r"String\s+TextFile::readLine\s*\(\s*char\s+newline\s*\)\s*\{"))
    if rb != ("{Strings(1000,0);s[0]='\\0';if(!_file&&!open(READ))returns;while(1){charc;if(read(&c,1)<1)break;"
              "if(c==newline)break;s<<c;}returns;}"):
        raise TranslateError("TextFile::readLine(char) is no longer: open(READ) if not open; loop { read one byte, stop when the read fails; "
                             "stop at the delimiter; append }")
    # ---- lines()
    body = _flat(cparse.find_function(tf, r"Array<String>\s+TextFile::lines\s*\(\s*\)\s*\{"))
    if body != ("{Array<String>lines;if(_file){flush();returnTextFile(_path).lines();}if(!open(READ))returnlines;"
                "while(!end()){lines<<String();if(!readLine(lines.last())&&error())break;}close();returnlines;}"):
        raise TranslateError("TextFile::lines() is no longer: open object => flush and TextFile(_path).lines(); else open(READ); "
                             "`while (!end()) { lines << String(); if (!readLine(lines.last()) && error()) break; }`; close()")
    body = _flat(cparse.find_function(tf, r"bool\s+TextFile::end\s*\(\s*\)\s*\{"))
    if "return(_file||open(_path,READ))?(feof(_file)!=0||ferror(_file)!=0):true;" not in body:
        raise TranslateError("TextFile::end() is no longer `feof || ferror` of the (lazily opened) file")
    # ---- text()
    body = cparse.find_function(tf, r"String\s+TextFile::text\s*\(\s*\)\s*\{")
    flat = _flat(body)
    m = re.search(r"intn=\(int\)\(size\(\)&(0x[0-9a-fA-F]+|\d+)\);", flat)
    if not m:
        raise TranslateError("TextFile::text(): `int n = (int)(size() & <mask>)` not found")
    mask = int(m.group(1), 0)
    if not flat.startswith("{if(_file){flush();returnTextFile(_path).text();}_info.clear();intn=(int)(size()&"):
        raise TranslateError("TextFile::text() no longer starts with: open object => flush and TextFile(_path).text(); else _info.clear(); n = size() & mask")
    if "Stringtext;if(!open(READ)){returntext;}bytehead[8];" not in flat:
        raise TranslateError("TextFile::text(): `String text; if (!open(READ)) return text;` not found")
    m = re.search(r"if\(n>=(\d+)\)", flat)
    if not m or int(m.group(1)) != 2:
        raise TranslateError("TextFile::text(): BOM sniffing guard `if (n >= 2)` not found")
    boms = re.findall(r"head\[0\]==(0x[0-9a-fA-F]{2})&&head\[1\]==(0x[0-9a-fA-F]{2})", flat)
    if len(boms) != 3:
        raise TranslateError("TextFile::text(): expected three BOM tests on head[0], head[1]")
    m = re.search(r"head\[0\]==0x[0-9a-fA-F]{2}&&head\[1\]==0x[0-9a-fA-F]{2}&&n>=3&&read\(head\+2,1\)==1&&head\[2\]==(0x[0-9a-fA-F]{2})\)", flat)
    if not m:
        raise TranslateError("TextFile::text(): UTF-8 BOM test `&& n>=3 && read(head + 2, 1) == 1 && head[2] == 0x..` not found")
    if "bytehead[8];if(n>=2){if(read(head,2)<2)head[0]=head[1]=0;if(head[0]==" not in flat:
        raise TranslateError("TextFile::text(): the two BOM bytes are no longer read with `if (read(head, 2) < 2) head[0] = head[1] = 0;` "
                             "(a file shorter than the cached size must not be compared through uninitialised bytes)")
    b3 = int(m.group(1), 16)
    loops = re.findall(r"while\(1\)\{if\(read\(b,2\)<2\)break;c=b\[([01])\]\|\(\(\(wchar_t\)b\[([01])\]\)<<8\);"
                       r"if\(c=='\\n'&&c0=='\\r'\)a\.resize\(a\.length\(\)-1\);a<<c;c0=c;\}a<<0;text=a\.data\(\);close\(\);returntext;", flat)
    if len(loops) != 2:
        raise TranslateError("TextFile::text(): the two UTF-16 unit loops (read 2 bytes, combine, fold CR LF, append) are not both recognised")
    for lo, hi in loops:
        if lo == hi:
            raise TranslateError("TextFile::text(): UTF-16 unit built from the same byte twice")
    if not flat.endswith("else{seek(0);}}text.resize(n,false,false);n=read(&text[0],n);text[n]='\\0';text.fix(n);close();returntext;}"):
        raise TranslateError("TextFile::text(): the plain/UTF-8 tail (seek(0); resize(n); n = read(&text[0], n); fix(n)) is not recognised")
    # ---- TextFile writers
    def tfhas(fn_re, needle, what):
        b = _flat(cparse.find_function(tf, fn_re))
        if needle not in b:
            raise TranslateError("TextFile.cpp: %s no longer reads `%s`" % (what, needle))
    tfhas(r"bool\s+TextFile::append\s*\(\s*const\s+String\s*&\s*s\s*\)\s*\{",
          "if(!_file&&!open(APPEND))returnfalse;return(int)fwrite(*s,1,s.length(),_file)>=s.length();", "TextFile::append()")
    tfhas(r"bool\s+TextFile::write\s*\(\s*const\s+String\s*&\s*s\s*\)\s*\{",
          "if(!_file&&!open(WRITE))returnfalse;return(int)fwrite(*s,1,s.length(),_file)>=s.length();", "TextFile::write()")
    tfhas(r"TextFile\s*&\s*TextFile::operator<<\s*\(\s*const\s+String\s*&\s*x\s*\)\s*\{",
          "if(!_file&&!open(WRITE))return*this;fwrite(*x,1,x.length(),_file);return*this;", "TextFile::operator<<(const String&)")
    tfhas(r"TextFile\s*&\s*TextFile::operator<<\s*\(\s*const\s+char\s*\*\s*x\s*\)\s*\{",
          "if(!_file&&!open(WRITE))return*this;fputs(x,_file);return*this;", "TextFile::operator<<(const char*)")
    # ---- TextFile::open adds TEXT
    th = cparse.read(repo, "include/asl/TextFile.h")
    if not re.search(r"return\s+File::open\s*\(\s*name\s*,\s*OpenMode\s*\(\s*mode\s*\|\s*TEXT\s*\)\s*\)\s*&&\s*_file\s*!=\s*0\s*;", th):
        raise TranslateError("TextFile::open no longer forwards `mode | TEXT` to File::open")
    # ---- File::open mode strings
    fc = cparse.read(repo, "src/File.cpp")
    body = cparse.find_function(fc, r"bool\s+File::open\s*\(\s*const\s+String\s*&\s*name\s*,\s*File::OpenMode\s+mode\s*\)\s*\{")
    chains = re.findall(r"fopen_mode\s*=\s*(.*?);", body, re.S)
    if len(chains) != 2:
        raise TranslateError("File::open: expected two assignments to fopen_mode (binary, text)")
    if not re.search(r"if\s*\(\s*!\s*\(\s*mode\s*&\s*TEXT\s*\)\s*\)", body):
        raise TranslateError("File::open: `if(!(mode & TEXT))` not found")
    binm = _chain(chains[0], "binary")
    txtm = _chain(chains[1], "text")
    fh = cparse.read(repo, "include/asl/File.h")
    if not re.search(r"enum\s+OpenMode\s*\{\s*READ\s*,\s*WRITE\s*,\s*APPEND\s*,\s*RW\s*,\s*TEXT\s*=\s*8\s*\}", fh):
        raise TranslateError("File.h: enum OpenMode{READ, WRITE, APPEND, RW, TEXT=8} changed")
    # content / firstBytes / put / read / write
    def has(fn_re, needle, what):
        b = _flat(cparse.find_function(fc, fn_re))
        if needle not in b:
            raise TranslateError("File.cpp: %s no longer reads `%s`" % (what, needle))
    has(r"ByteArray\s+File::content\s*\(\s*\)\s*\{",
        "{if(_file){flush();returnFile(_path).content();}_info.clear();returnfirstBytes((int)size());}", "File::content()")
    has(r"ByteArray\s+File::firstBytes\s*\(\s*int\s+n\s*\)\s*\{",
        "{if(_file){flush();returnFile(_path).firstBytes(n);}ByteArraydata(n);if(!open(_path)){data.clear();returndata;}data.resize(read(&data[0],n));close();returndata;}",
        "File::firstBytes()")
    has(r"bool\s+File::put\s*\(\s*const\s+ByteArray\s*&\s*data\s*\)\s*\{",
        "if(!_file&&!open(_path,WRITE))returnfalse;returnwrite(data.data(),data.length())==data.length();", "File::put()")
    has(r"void\s+File::close\s*\(\s*\)\s*\{", "if(_file)fclose(_file);_file=0;_info=FileInfo();", "File::close() (closes the handle and discards the cached stat information)")
    has(r"Long\s+File::size\s*\(\s*\)\s*const\s*\{", "{if(_file){fflush(_file);_info=getFileInfo(_path);}elseif(!_info)_info=getFileInfo(_path);return_info.size;}", "File::size()")
    if "_info" in _flat(body):
        raise TranslateError("File::open now touches the cached stat information `_info` (the model keeps it across open())")
    if not _flat(body).startswith('{if(name=="")returnfalse;if(_file)close();'):
        raise TranslateError("File::open no longer closes the handle the object already has (`if(_file) close();`)")
    if "File(constString&name,OpenModemode):_file(0),_path(name),_endian(ENDIAN_NATIVE){open(name,mode);}" not in _flat(fh):
        raise TranslateError("File.h: File(name, mode) no longer initialises _file before open()")
    fhf = _flat(fh)
    for needle, what in (("boolexists()const{_info.clear();returncreationDate().time()!=0;}", "File::exists()"),
                         ("boolisFile()const{returncreationDate().time()!=0&&!isDirectory();}", "File::isFile()"),
                         ("File(constFile&f):_file(0),_path(f._path),_info(f._info),_endian(f._endian)", "File copy constructor"),
                         ("voidflush(){fflush(_file);}", "File::flush()"),
                         ("boolend(){returnfeof(_file)!=0||ferror(_file)!=0;}", "File::end()"),
                         ("boolerror(){returnferror(_file)!=0;}", "File::error()")):
        if needle not in fhf:
            raise TranslateError("File.h: %s no longer reads `%s`" % (what, needle))
    has(r"int\s+File::read\s*\(\s*void\s*\*\s*p\s*,\s*int\s+n\s*\)\s*\{", "return(int)fread(p,1,n,_file);", "File::read()")
    # ---- File::operator>>(String&) and the generic operator>> it reads the length with
    m = re.search(r"File&operator>>\(String&x\)\{intn=0;\*this>>n;x\.clear\(\);charbuf\[(\d+)\];while\(n>0\)\{"
                  r"intm=read\(buf,n<\(int\)sizeof\(buf\)\?n:\(int\)sizeof\(buf\)\);if\(m<=0\)break;x\.append\(buf,m\);n-=m;\}return\*this;\}", fhf)
    if not m or int(m.group(1)) < 1:
        raise TranslateError("File.h: File::operator>>(String&) no longer has the transcribed shape (int n = 0; *this >> n; x.clear(); "
                             "char buf[<k>]; while (n > 0) { m = read(buf, min(n, sizeof(buf))); if (m <= 0) break; x.append(buf, m); n -= m; })")
    shr_block = int(m.group(1))
    if "File&get_(T&x,void*){read(&x,sizeof(x));if(_endian==ASL_OTHER_ENDIAN)swapBytes(x);return*this;}" not in fhf:
        raise TranslateError("File.h: the generic File::operator>>(T&) (get_) is no longer `read(&x, sizeof(x)); swap if other endian`")
    has(r"int\s+File::write\s*\(\s*const\s+void\s*\*\s*p\s*,\s*int\s+n\s*\)\s*\{", "return(int)fwrite(p,1,n,_file);", "File::write()")
    # ---- Directory::copy / move (POSIX half)
    dc = _posix_part(cparse.read(repo, "src/Directory.cpp"))
    body = cparse.find_function(dc, r"bool\s+Directory::copy\s*\(\s*const\s+String\s*&\s*from\s*,\s*const\s+String\s*&\s*to\s*\)\s*\{")
    ms = re.findall(r"byte\s+buffer\s*\[\s*(\d+)\s*\]\s*;", body)
    if len(ms) != 1 or int(ms[0]) < 1:
        raise TranslateError("Directory::copy: expected exactly one `byte buffer[<n>];` with n >= 1")
    block = int(ms[0])
    flat = _flat(body)
    if ("do{n=src.read(buffer,sizeof(buffer));if(n<0)returnfalse;intm=dst.write(buffer,n);if(m!=n)returnfalse;}"
            "while(n==sizeof(buffer));if(src.error())returnfalse;dst.flush();if(dst.error())returnfalse;returntrue;") not in flat:
        raise TranslateError("Directory::copy: the block loop no longer has the transcribed shape "
                             "(read sizeof(buffer); write n; repeat while n == sizeof(buffer))")
    if ("structstatsfrom,sto;if(stat(from,&sfrom)==0&&stat(topath,&sto)==0&&sfrom.st_dev==sto.st_dev&&sfrom.st_ino==sto.st_ino)returnfalse;"
            "Filedst(topath,File::WRITE);") not in flat:
        raise TranslateError("Directory::copy: the same-file test before opening the destination changed")
    if "Filesrc(from,File::READ);if(!src)returnfalse;" not in flat or "Filedst(topath,File::WRITE);if(!dst)returnfalse;" not in flat:
        raise TranslateError("Directory::copy: source/destination opening changed")
    if "if(tofile.isDirectory())topath=to+'/'+File(from).name();" not in flat:
        raise TranslateError("Directory::copy: directory destination handling changed")
    body = _flat(cparse.find_function(dc, r"bool\s+Directory::move\s*\(\s*const\s+String\s*&\s*from\s*,\s*const\s+String\s*&\s*to\s*\)\s*\{"))
    if ("if(tofile.isDirectory())dst=to+'/'+File(from).name();if(rename(from,dst)==0)returntrue;"
            "if(errno==EXDEV){if(!copy(from,dst))returnfalse;returnremove(from);}returnfalse;") not in body:
        raise TranslateError("Directory::move: rename / EXDEV copy+remove fallback changed")
    whole = _flat(cparse.read(repo, "src/Directory.cpp"))
    if "boolFile::copy(constString&to){if(_file)flush();returnDirectory::copy(_path,to);}" not in whole:
        raise TranslateError("File::copy no longer flushes the object before Directory::copy(_path, to)")
    if "boolFile::move(constString&to){if(_file)close();returnDirectory::move(_path,to);}" not in whole:
        raise TranslateError("File::move no longer closes the object before Directory::move(_path, to)")
    body = _flat(cparse.find_function(dc, r"bool\s+Directory::remove\s*\(\s*const\s+String\s*&\s*path\s*\)\s*\{"))
    if "if(File(path).isDirectory())returnrmdir(path)==0;elsereturnunlink(path)==0;" not in body:
        raise TranslateError("Directory::remove: rmdir/unlink selection changed")

    def u8(v):
        return "0x%02x" % v
    le_lo, be_lo = int(loops[0][0]), int(loops[1][0])
    txt = ("/- GENERATED by tools/props/c17.py from src/TextFile.cpp, include/asl/TextFile.h, src/File.cpp, include/asl/File.h and\n"
           "   src/Directory.cpp — do not edit -/\nnamespace Gen.File\n\n")
    txt += "/-- `int chunk = %d;` in `TextFile::readLine(String&)` (the `fgets` buffer size) -/\ndef readLineChunk : Nat := %d\n\n" % (chunk, chunk)
    txt += "/-- `byte buffer[%d];` in `Directory::copy` (POSIX half): the loop reads `sizeof(buffer)` and repeats while `n == sizeof(buffer)` -/\ndef copyBlock : Nat := %d\n\n" % (block, block)
    txt += "/-- `char buf[%d];` in `File::operator>>(String&)`: the read loop asks for `min(n, sizeof(buf))` bytes -/\ndef shrBlock : Nat := %d\n\n" % (shr_block, shr_block)
    txt += "/-- `enum OpenMode{READ, WRITE, APPEND, RW, TEXT=8}` (include/asl/File.h) without the flag -/\n"
    txt += "inductive OpenMode where\n  | read | write | append | rw\nderiving DecidableEq, Repr\n\n"
    for name, tab, what in (("fopenBin", binm, "without `TEXT`"), ("fopenText", txtm, "with `TEXT` (every `TextFile::open`)")):
        txt += "/-- the `fopen` mode string `File::open` selects %s -/\ndef %s : OpenMode → List Char\n" % (what, name)
        for k in ("READ", "WRITE", "APPEND", "RW"):
            txt += "  | .%s => [%s]\n" % (_MODES[k], ", ".join("'%s'" % c for c in tab[k]))
        txt += "\n"
    txt += "/-- `int n = (int)(size() & 0x%x)` in `TextFile::text()` -/\ndef sizeMask : Nat := 0x%x\n\n" % (mask, mask)
    txt += "/-- the byte-order marks `TextFile::text()` tests, in the order of its `if` chain -/\n"
    txt += "def bom1 : UInt8 × UInt8 := (%s, %s)\n" % (u8(int(boms[0][0], 16)), u8(int(boms[0][1], 16)))
    txt += "def bom2 : UInt8 × UInt8 := (%s, %s)\n" % (u8(int(boms[1][0], 16)), u8(int(boms[1][1], 16)))
    txt += "def bom3 : UInt8 × UInt8 × UInt8 := (%s, %s, %s)\n\n" % (u8(int(boms[2][0], 16)), u8(int(boms[2][1], 16)), u8(b3))
    txt += "/-- index (0/1) of the low-order byte of a unit in the loop behind `bom1` / `bom2` (`c = b[lo] | b[hi] << 8`) -/\n"
    txt += "def lowIndex1 : Nat := %d\ndef lowIndex2 : Nat := %d\n\nend Gen.File\n" % (le_lo, be_lo)
    out = {"Gen/FileGen.lean": txt}
    # AslModel/Utf.lean (C08's converters, used by text()) imports Gen/UnicodeGen.lean: make sure it exists
    from lib import core
    if not os.path.exists(os.path.join(core.LEAN, "Gen", "UnicodeGen.lean")):
        from props import c08
        out.update(c08.translate(repo))
    return out


FALLBACK = {}

# ------------------------------------------------------------------------------------------------ K: helpers

PATHS = ["1a", "1b", "2a", "2b"]
_base_cache = {}
M64 = (1 << 64) - 1


def _base(seed, nulfree):
    k = (seed, nulfree)
    if k not in _base_cache:
        x = (seed * 2862933555777941757 + 3037000493) & M64
        out = bytearray()
        for _ in range(65521):
            x = (x * 6364136223846793005 + 1442695040888963407) & M64
            v = x >> 56
            out.append(v % 255 + 1 if nulfree else v)
        if len(_base_cache) > 64:
            _base_cache.clear()
        _base_cache[k] = bytes(out)
    return _base_cache[k]


def tok_bytes(tok):
    """bytes denoted by a byte-string token: hex, `-`, g<n>.<seed>, t<n>.<seed>"""
    if tok[0] in "gt":
        n, seed = tok[1:].split(".")
        n, seed = int(n), int(seed)
        b = _base(seed, tok[0] == "t")
        return (b * (n // 65521 + 1))[:n]
    return unhex(tok)


def tok_len(tok):
    if tok[0] in "gt":
        return int(tok[1:].split(".")[0])
    return 0 if tok == "-" else len(tok) // 2


def show_bytes(b):
    if len(b) <= 4096:
        return "%d %s" % (len(b), hexs(b))
    return "%d crc:%08x" % (len(b), zlib.crc32(b) & 0xffffffff)


def show_lines(ls):
    total = sum(len(l) + 1 for l in ls)
    if total <= 4096:
        return "n=%d %s" % (len(ls), ",".join(hexs(l) for l in ls))
    c = 0
    for l in ls:
        c = zlib.crc32(len(l).to_bytes(4, "little") + l, c)
    return "n=%d crc:%08x" % (len(ls), c & 0xffffffff)


def ref_lines(b):
    """split at LF; one CR removed before each LF (the bytes after the last LF are the last line)"""
    segs = b.split(b"\n")
    out = [s[:-1] if s.endswith(b"\r") else s for s in segs[:-1]]
    out.append(segs[-1])
    return out


def utf16_has_crlf(units):
    return any(units[i] == 13 and units[i + 1] == 10 for i in range(len(units) - 1))


def ref_text(b):
    """the same text in UTF-8; None where the property says nothing (invalid UTF-16, NUL, odd length)"""
    if len(b) >= 2 and b[:2] in (b"\xff\xfe", b"\xfe\xff"):
        body = b[2:]
        if len(body) % 2:
            return None
        try:
            s = body.decode("utf-16-le" if b[:2] == b"\xff\xfe" else "utf-16-be")
        except UnicodeDecodeError:
            return None
        if "\x00" in s:
            return None
        return s.encode("utf-8")
    if b[:3] == b"\xef\xbb\xbf":
        return b[3:]
    return b


REFERENCE_NAME = "python3: bytes.split / str.decode('utf-16') / identity for what was written, copied, moved"


def reference(line):
    t = line.split()
    op = t[0]
    try:
        if op in ("xlines", "xrl"):
            b = tok_bytes(t[1])
            if 0 in b:
                return None
            return show_lines(ref_lines(b))
        if op == "xrlw":
            # while (readLine(s)) out << s: the LF-terminated lines, then the unterminated tail left by the `false` call
            b = tok_bytes(t[1])
            if 0 in b:
                return None
            ls = ref_lines(b)
            return "%s last=%s end=1" % (show_lines(ls[:-1]), show_bytes(ls[-1]))
        if op == "xshw":
            # f << int(s.length()) << s << tail; g >> x; read of the rest: x is s, the rest is tail, the over-long read hits the end
            return "%s rest=%s end=1" % (show_bytes(tok_bytes(t[1])), show_bytes(tok_bytes(t[2])))
        if op == "xshr":
            # the int32 length in host (little-endian) order — missing bytes of a truncated field stay 0 —, then that many bytes
            # or the bytes that are there; nothing for a negative length
            b = tok_bytes(t[1])
            n = int.from_bytes(b[:4].ljust(4, b"\0"), "little", signed=True)
            body = b[4:]
            x = body[:max(n, 0)]
            short = len(b) < 4 or n > len(body)
            return "%s pos=%d end=%d" % (show_bytes(x), min(len(b), 4) + len(x), 1 if short else 0)
        if op == "xtext":
            r = ref_text(tok_bytes(t[1]))
            return None if r is None else show_bytes(r)
        if op == "xfo" and t[2] == "o":
            # an object of 1b whose open(1a, READ) failed, then one lazy writer: everything goes to 1a, 1b is untouched
            b = tok_bytes(t[4])
            if t[1] == "t" and (0 in b or b[:2] in (b"\xff\xfe", b"\xfe\xff", b"\xef\xbb")):
                return None
            return "open=0 w=1 size=%d data=%s path=0 raw0=%s raw1=8 70726563696f7573" % (len(b), show_bytes(b), show_bytes(b))
        if op == "xput":
            b = tok_bytes(t[2])
            return "%d %s raw=1" % (len(b), show_bytes(b))
        if op == "xwlines":
            b = tok_bytes(t[1])
            if 0 in b:
                return None
            l = show_lines(ref_lines(b))
            return "%s | %s | %s" % (l, l, l)
        if op == "xreadwrite":
            b1, b2 = tok_bytes(t[2]), tok_bytes(t[3])
            return "1 " + show_bytes(b1 + b2 if t[1] == "t" else b2)
        if op == "xobjcopy":
            b = tok_bytes(t[3])
            return "1 %s 1 %s src=0" % (show_bytes(b), show_bytes(b + b))
        if op == "xfull":
            b = tok_bytes(t[1])
            if not b:
                return None        # an empty file "fits": nothing the property forbids
            return "0 0 " + show_bytes(b)
        if op in ("xtwice", "xputread", "xreopen", "xstale", "xstalesize"):
            # whole-file readers of ONE object: asked twice, after a lazily opening writer, after reopening, after another writer
            b = tok_bytes(t[-1])
            if op == "xstalesize":
                return str(len(b))
            w = b
            if t[1] == "t":
                if len(b) >= 2 and b[:2] in (b"\xff\xfe", b"\xfe\xff"):
                    return None
                w = ref_text(b)
                if w is None:
                    return None
            if op == "xtwice":
                return "%s %s %s %s" % (show_bytes(w), show_bytes(w), show_bytes(b[:2]), show_bytes(w))
            if op == "xputread":
                return "%d %s %d" % (len(b), show_bytes(w), 2 * len(b))
            if op == "xreopen":
                return "1 %s %s" % (show_bytes(w), show_bytes(b))
            return show_bytes(w)
        if op == "xobj":
            # one object: open, write, query while open, write, close -> size(), [text()], content() of the same object
            b = tok_bytes(t[4]) + tok_bytes(t[5])
            if t[1] == "t":
                tx = ref_text(b)
                if tx is None or (len(b) >= 2 and b[:2] in (b"\xff\xfe", b"\xfe\xff")):
                    return None
                return "%d %s %s" % (len(b), show_bytes(tx), show_bytes(b))
            return "%d %s" % (len(b), show_bytes(b))
        if op == "xseq":
            b1, b2 = tok_bytes(t[2]), tok_bytes(t[4])
            b = b1 + b2 if t[3] in ("tapp", "fa") else b2
            return "%d %s raw=1" % (len(b), show_bytes(b))
        if op == "xcopy":
            return "1 " + show_bytes(tok_bytes(t[1]))
        if op == "xmove":
            return "1 " + show_bytes(tok_bytes(t[2])) + " src=0"
    except Exception:
        return None
    return None


KNOWN = [
    {"key": "stale-size-closed-object", "desc": "size() of an object that is not open answers from the size it cached before another object changed the file",
     "case": ["xstalesize f 6162 616263646566"]},
    {"key": "utf16-crlf-fold", "desc": "UTF-16 BOM text containing CR LF is returned with LF only",
     "case": ["xtext fffe61000d000a006200", "xtext feff0061000d000a0062"]},
]

# ------------------------------------------------------------------------------------------------ K: generators


def rbytes(rng, n):
    return bytes(rng.getrandbits(8) for _ in range(n))


def btok(rng, n, nulfree=False):
    """a byte-string token of length n: explicit hex when small, generator form when large"""
    if n <= 700:
        if nulfree:
            return hexs(bytes(rng.randrange(1, 256) for _ in range(n)))
        return hexs(rbytes(rng, n))
    # few distinct seeds: every consumer (python reference, harness, model) rebuilds the 65521-byte period per seed
    return "%s%d.%d" % ("t" if nulfree else "g", n, rng.randrange(1, 13))


def sizes(tier):
    s = set(range(0, 40))
    for k in range(1, 5):
        for d in range(-3, 4):
            s.add(254 * k + d)
            s.add(255 * k + d)
    for c in (4096, 8192, 65536, 131072, 196608):
        for d in (-1, 0, 1):
            s.add(c + d)
    s.update([1000, 2000, 5000, 65521, 70000, 100000, 200000])
    if tier != "quick":
        s.update(range(40, 300))
        for k in range(5, 12):
            for d in range(-2, 3):
                s.add(254 * k + d)
        for c in (262144, 327680, 1 << 20, 1 << 22):
            for d in (-1, 0, 1):
                s.add(c + d)
        s.update([(1 << 24) - 1, 1 << 24, (1 << 24) + 1, 3000000])
    return sorted(s)


XPUT_APIS = ["put", "tput", "tapp", "fw", "fa", "fsb", "fss", "tw", "ts"]
LINE_LENS = [0, 0, 1, 2, 3, 10, 80, 252, 253, 254, 255, 256, 257, 506, 507, 508, 509, 510, 762, 763, 1016, 1017, 2000]


def gen_line(rng, n):
    """n NUL-free bytes without LF; CR allowed anywhere (a lone CR does not end a line)"""
    kind = rng.random()
    out = bytearray()
    for _ in range(n):
        if kind < 0.5:
            c = rng.choice(b"abcxyz 09\t;")
        else:
            c = rng.randrange(1, 256)
        if c == 10:
            c = 11
        if rng.random() < 0.03:
            c = 13
        out.append(c)
    return bytes(out)


def gen_text(rng, maxlines=8):
    nl = rng.randrange(0, maxlines + 1)
    out = bytearray()
    meta = {"ends": set(), "lens": []}
    for i in range(nl):
        n = rng.choice(LINE_LENS) if rng.random() < 0.7 else rng.randrange(0, 2001)
        l = bytearray(gen_line(rng, n))
        e = rng.random()
        if e < 0.4:
            end, en = b"\n", "LF"
        elif e < 0.75:
            end, en = b"\r\n", "CRLF"
        elif e < 0.85:
            end, en = b"\r\r\n", "CRCRLF"
        else:
            end, en = b"\r", "loneCR"
        # put the CR of a CRLF exactly on a chunk boundary now and then
        out += l + end
        meta["ends"].add(en)
        meta["lens"].append(n)
    if rng.random() < 0.5:
        n = rng.choice(LINE_LENS)
        out += gen_line(rng, n)
        meta["lens"].append(n)
        meta["final_newline"] = n == 0 and nl > 0 and not bytes(out).endswith(b"\r")
    else:
        meta["final_newline"] = bytes(out).endswith(b"\n")
    return bytes(out), meta


SCALAR_EDGES = [1, 9, 10, 13, 0x20, 0x41, 0x7f, 0x80, 0xff, 0x7ff, 0x800, 0xfff, 0xd7ff, 0xe000, 0xfeff, 0xfffd, 0xfffe, 0xffff,
                0x10000, 0x10001, 0x1f600, 0xfffff, 0x100000, 0x10fffd, 0x10ffff]


def gen_scalar(rng):
    r = rng.random()
    if r < 0.25:
        return rng.choice(SCALAR_EDGES)
    if r < 0.5:
        return rng.randrange(1, 0x80)
    if r < 0.65:
        return rng.randrange(0x80, 0x800)
    if r < 0.85:
        while True:
            c = rng.randrange(0x800, 0x10000)
            if not 0xd800 <= c <= 0xdfff:
                return c
    return rng.randrange(0x10000, 0x110000)


def gen_scalars(rng, n, allow_crlf):
    out = []
    for _ in range(n):
        c = gen_scalar(rng)
        # known finding utf16-crlf-fold: exactly the texts with an adjacent CR LF are excluded for UTF-16
        if not allow_crlf and c == 10 and out and out[-1] == 13:
            c = 0x2028
        out.append(c)
    return out


def enc_bom(scalars, kind):
    s = "".join(chr(c) for c in scalars)
    if kind == "utf8bom":
        return b"\xef\xbb\xbf" + s.encode("utf-8")
    if kind == "utf16le":
        return b"\xff\xfe" + s.encode("utf-16-le")
    if kind == "utf16be":
        return b"\xfe\xff" + s.encode("utf-16-be")
    return s.encode("utf-8")


def _full_ok():
    """is /dev/full there (a character device every write to which fails with ENOSPC)?"""
    import stat
    try:
        return stat.S_ISCHR(os.stat("/dev/full").st_mode) and os.access("/dev/full", os.W_OK)
    except OSError:
        return False


def _xdev_ok():
    """is /dev/shm a writable directory on another device than /tmp (so that rename() fails with EXDEV)?"""
    try:
        return os.stat("/tmp").st_dev != os.stat("/dev/shm").st_dev and os.access("/dev/shm", os.W_OK)
    except OSError:
        return False


def gen(rng, tier):
    quick = tier == "quick"
    cases = []
    xdev_ok = _xdev_ok()
    if not _full_ok():
        from lib.core import log
        log("[C17] WARNING: /dev/full is not available: the failing-flush branch of Directory::copy/move is NOT exercised in this run")
    if not xdev_ok:
        from lib.core import log
        log("[C17] WARNING: /dev/shm is not a second writable device: the EXDEV branch of Directory::move is NOT exercised in this run")
    # ---- (A) every size class through every writer, the POSIX view, content/size, copy, move
    for n in sizes(tier):
        big = n > 300000
        c = []
        apis = XPUT_APIS if n <= 1100 else [rng.choice(XPUT_APIS), rng.choice(XPUT_APIS)]
        if big:
            apis = [rng.choice(["put", "tput", "fw", "ts"])]
        for a in apis:
            c.append("xput %s %s" % (a, btok(rng, n, nulfree=a in ("ts",) and False)))
        c.append("xcopy " + btok(rng, n))
        if not big:
            c.append("xmove 0 " + btok(rng, n))
            if xdev_ok:
                c.append("xmove 1 " + btok(rng, n))
        cases.append(c)
        # read-back in pieces around the size
        if not big:
            h = ["rawput 1a " + btok(rng, n), "size 1a", "first 1a %d" % max(0, n - 1), "first 1a %d" % (n + 5), "open 1a f r"]
            left = n
            while left > 0 and len(h) < 14:
                k = rng.choice([1, 2, 255, 4096, 65536, left, left // 2 + 1])
                h.append("r %d" % k)
                left -= min(k, left)
            h += ["r 3", "end", "pos", "seek %d" % rng.randrange(0, n + 1), "pos", "r 7", "close"]
            cases.append(h)
    # two writers in a row on one path: truncating writers replace, appenders extend
    for i in range(120 if quick else 2000):
        n1 = rng.choice([0, 1, 3, 100, 255, 4096, 5000])
        n2 = rng.choice([0, 1, 2, 50, 254, 4097, 70000]) if rng.random() < 0.9 else rng.randrange(0, 200000)
        cases.append(["xseq %s %s %s %s" % (rng.choice(XPUT_APIS), btok(rng, n1), rng.choice(XPUT_APIS), btok(rng, n2))])
    # ---- (B) line structure
    # B1: exhaustive small texts over {a, CR, LF}
    import itertools
    maxlen = 5 if quick else 7
    batch = []
    for L in range(0, maxlen + 1):
        for t in itertools.product(b"a\r\n", repeat=L):
            batch.append(("xlines ", "xrl ", "xrlw ")[len(batch) % 3] + hexs(bytes(t)))
            if len(batch) == 60:
                cases.append(batch)
                batch = []
    if batch:
        cases.append(batch)
    # B2: a run of x of every length around the fgets chunk, followed by every short tail over {x, CR, LF}
    tails = [bytes(t) for L in range(0, 4 if quick else 5) for t in itertools.product(b"x\r\n", repeat=L)]
    for base in ([250, 251, 252, 253, 254, 255, 256, 507, 508, 509] if quick else list(range(248, 259)) + list(range(504, 512)) + [761, 762, 763]):
        pre = b"x" * base
        batch = []
        for tl in tails:
            batch.append(("xrlw " if len(batch) % 4 == 3 else "xlines ") + hexs(pre + tl))
            if len(batch) == 40:
                cases.append(batch)
                batch = []
        if batch:
            cases.append(batch)
    # B3: random texts
    for i in range(250 if quick else 4000):
        t, _ = gen_text(rng, 8)
        c = ["xlines " + hexs(t)]
        if rng.random() < 0.5:
            c.append("xrl " + hexs(t))
        if rng.random() < 0.5:
            # the loop driven by the bool result of readLine(String&) (readLine_while_spec)
            c.append("xrlw " + hexs(t))
        if rng.random() < 0.5:
            # the same text written with the asl API, read back line by line from a session
            c += ["tput 1b " + hexs(t), "open 1b t r"] + [rng.choice(["rl", "rl", "rl", "rlc 0a", "rlc 0d", "rlc 3b"]) for _ in range(rng.randrange(1, 7))]
            c += ["end", "close", "lines 1b", "text 1b"]
        cases.append(c)
    # B3b: outside the property's domain (model only): texts with NUL bytes (strlen drops the rest of the fgets chunk),
    # NUL as first byte of a line (repaired d08b735: readLine read s[-1])
    for i in range(60 if quick else 1500):
        t, _ = gen_text(rng, 5)
        b = bytearray(t)
        for _ in range(rng.randrange(1, 4)):
            pos = rng.choice([0, len(b), rng.randrange(0, len(b) + 1)])
            b[pos:pos] = b"\x00"
        if rng.random() < 0.3:
            b = bytearray(b"\x00") + b
        cases.append(["xlines " + hexs(bytes(b)), "xrl " + hexs(bytes(b)), "xrlw " + hexs(bytes(b)), "rawput 1b " + hexs(bytes(b)), "open 1b t r", "rl", "rl", "rl", "end", "close"])
    # B4: long lines / many lines
    for n in ([3000, 65536, 200000] if quick else [3000, 65536, 200000, 1 << 20, 1 << 22]):
        cases.append(["xlines " + btok(rng, n, True), "xrl " + btok(rng, n, True), "xrlw " + btok(rng, n, True)])
    cases.append(["xlines " + hexs(b"\n" * (3000 if quick else 100000)), "xlines " + hexs(b"\r\n" * 2500)])
    # B5: reading back with the stream operators (shr_string_inverse, shr_string_beyond, shr_string_negative): `f >> x` for a String
    # written as `f << int(s.length()) << s`, lengths around the 1024-byte read buffer; raw files with a truncated length, a
    # negative length, a length beyond the end of the file
    shr_sizes = list(range(0, 12)) + [1022, 1023, 1024, 1025, 1026, 2047, 2048, 2049, 3072, 4097] + [rng.randrange(0, 5000) for _ in range(8 if quick else 200)]
    shr_sizes += [200000] if quick else [65536, 200000, 1 << 20]
    batch = []
    for n in shr_sizes:
        tl = rng.choice([0, 0, 1, 3, 7, rng.randrange(0, 1500)])
        batch.append("xshw %s %s" % (btok(rng, n), btok(rng, tl)))
        if n <= 5000:
            body = rbytes(rng, n)
            batch.append("xshr " + hexs(n.to_bytes(4, "little") + body + rbytes(rng, tl)))
        if len(batch) >= 6:
            cases.append(batch)
            batch = []
    if batch:
        cases.append(batch)
    for i in range(40 if quick else 600):
        body = rbytes(rng, rng.choice([0, 1, 2, 5, 1023, 1024, 1025, rng.randrange(0, 3000)]))
        k = rng.randrange(5)
        if k == 0:      # truncated length field
            raw = rbytes(rng, rng.randrange(0, 4))
        elif k == 1:    # negative length
            raw = rng.randrange(1 << 31, 1 << 32).to_bytes(4, "little") + body
        elif k == 2:    # length beyond the end of the file
            raw = rng.choice([len(body) + 1, len(body) + 1024, len(body) + rng.randrange(1, 100000), (1 << 31) - 1]).to_bytes(4, "little") + body
        elif k == 3:    # shorter than the file
            raw = rng.randrange(0, len(body) + 1).to_bytes(4, "little") + body
        else:           # arbitrary bytes
            raw = rbytes(rng, rng.randrange(0, 12))
        cases.append(["xshr " + hexs(raw)])
    # ---- (C) byte-order marks
    for i in range(300 if quick else 5000):
        n = rng.choice([0, 1, 2, 3, 5, 10, 40]) if rng.random() < 0.8 else rng.randrange(0, 3000)
        c = []
        for kind in ("utf8bom", "utf16le", "utf16be", "none"):
            sc = gen_scalars(rng, n, allow_crlf=kind in ("utf8bom", "none"))
            c.append("xtext " + hexs(enc_bom(sc, kind)))
        cases.append(c)
    # texts with line structure in UTF-16 (CR and LF never adjacent in that order)
    for i in range(60 if quick else 800):
        parts = []
        for j in range(rng.randrange(0, 6)):
            parts += gen_scalars(rng, rng.randrange(0, 12), False)
            parts += rng.choice([[10], [13], [10, 13], [13, 13], [0x2028]])
        if len(parts) >= 2:
            parts = [c if not (c == 10 and k > 0 and parts[k - 1] == 13) else 0x85 for k, c in enumerate(parts)]
        kind = rng.choice(["utf16le", "utf16be"])
        cases.append(["xtext " + hexs(enc_bom(parts, kind))])
    # outside the property's domain (model only): arbitrary bytes behind a BOM, truncated BOMs, NULs, odd lengths
    for i in range(150 if quick else 3000):
        head = rng.choice([b"\xff\xfe", b"\xfe\xff", b"\xef\xbb\xbf", b"\xef\xbb", b"\xff", b"\xfe", b"\xef", b""])
        n = rng.randrange(0, 12)
        body = bytes(rng.choice(b"\x00\x0a\x0d\x41\xd8\xdc\xdb\xdf\xff\xfe\xbf") for _ in range(n)) if rng.random() < 0.6 else rbytes(rng, n)
        cases.append(["xtext " + hexs(head + body)])
    # ---- (D) histories on one path (and a second one for copy/move)
    for i in range(250 if quick else 5000):
        cases.append(gen_history(rng, xdev_ok))
    # ---- (F) near-BOM prefixes: files that begin almost like a byte-order mark, every short length (text(), content(), lines())
    near = []
    for a, xs in ((0xef, (0x41, 0xbb, 0xbc, 0xba)), (0xff, (0x41, 0xfe, 0xfd, 0xff)), (0xfe, (0x41, 0xff, 0xfe, 0xfd)), (0xbb, (0xbf, 0xef))):
        near.append(bytes([a]))
        for x in xs:
            near.append(bytes([a, x]))
    for x in (0x41, 0xbe, 0xc0, 0xbf, 0x0a, 0x80, 0xfe, 0xef):
        near.append(bytes([0xef, 0xbb, x]))
    for pre in near:
        c = []
        for extra in (0, 1, 2, 3, 7, 300):
            b = pre + bytes(rng.choice(b"abcxyz\xbf\xef\xbb") for _ in range(extra))
            c.append("xtext " + hexs(b))
            if extra in (0, 1, 3):
                c.append("xput tput " + hexs(b))
                c.append("xlines " + hexs(b))
                c.append("xobj t w size %s %s" % (hexs(b[:1]), hexs(b[1:])))
        cases.append(c)
    # stale cached size (hsize on a closed object, the file replaced by a shorter one through another object, then text()):
    # the BOM probe must not look at bytes it did not read (repair a78e103)
    for now in (b"", b"\xff", b"\xfe", b"\xef", b"\xef\xbb", b"\xff\xfe", b"A", b"\xef\xbb\xbf", b"\xef\xbbA"):
        for old in (2, 3, 10):
            cases.append(["rawput 1a " + hexs(b"0123456789"[:old]), "hnew 0 1a t", "hsize 0", "hnew 1 1a f", "hopen 1 w", "hw 1 " + hexs(now),
                          "hclose 1", "htext 0", "hclose 0", "htext 0", "raw 1a"])
    # CR as the last byte of an fgets piece, LF first of the next (line length = 253 mod 254), every quick run
    for k in range(1, 5 if quick else 9):
        L = 254 * k - 1
        t = b"x" * L + b"\r\n" + b"y" * (L - 1) + b"\r\r\n" + b"z" * L + b"\r\n"
        cases.append(["xlines " + hexs(t), "xrl " + hexs(t), "xrlw " + hexs(t), "tput 1b " + hexs(t), "open 1b t r", "rl", "rl", "rl", "rl", "end", "close"])
    # ---- (F) operations through an object after a FAILED open (READ on a path that does not exist yet): the object refers to
    # the name it was asked to open, the lazily opening writers create that file (failed_open_keeps_path, failed_open_then_write)
    for i in range(48 if quick else 600):
        k = rng.choice("ft")
        api = "p" if k == "f" else rng.choice(["w", "a", "p", "s"])
        n = rng.choice([0, 1, 5, 254, 255, 4097, 70000]) if rng.random() < 0.8 else rng.randrange(0, 3000)
        cases.append(["xfo %s %s %s %s" % (k, "co"[i % 2], api, btok(rng, n, k == "t"))] + (["raw 1a", "raw 1b", "size 1a"] if rng.random() < 0.3 else []))
    # ---- (E) persistent objects: one File/TextFile object written through, queried while open, closed, read back
    for i in range(260 if quick else 4000):
        n1 = rng.choice(OBJ_SIZES)
        n2 = rng.choice(OBJ_SIZES)
        cases.append(["xobj %s %s %s %s %s" % (rng.choice("ft"), rng.choice("wa"), rng.choice(OBJ_QUERIES + ["none"]),
                                              btok(rng, n1, nulfree=True), btok(rng, n2, nulfree=True))])
    for i in range(320 if quick else 5000):
        cases.append(gen_obj_history(rng))
    # lines() after writing through the same object / after text() / twice; a reader then a lazily opening writer; File::copy and
    # File::move of an object with unflushed writes; a destination that accepts no byte (/dev/full)
    full_ok = _full_ok()
    cases.append(["xdirlines", "xdirrlc", "xdirend", "xdircopy", "xwend 6162630a", "xwend -", "xwend " + btok(rng, 5000, nulfree=True)])
    for n in (5, 5000):
        cases.append(["xwrlc " + (hexs(b"ab\ncd") if n == 5 else btok(rng, n, nulfree=True))])
    for i in range(120 if quick else 2000):
        t, _ = gen_text(rng, 5)
        n = rng.choice([0, 1, 5, 100, 4095, 4096, 4097, 9000, 70000])
        c = ["xwlines " + hexs(t),
             "xreadwrite %s %s %s" % (rng.choice("ft"), btok(rng, rng.choice([0, 1, 4, 100, 5000]), nulfree=True), btok(rng, rng.choice([0, 1, 3, 200, 5000]), nulfree=True)),
             "xobjcopy %s %s %s" % (rng.choice("ft"), "1" if xdev_ok and rng.random() < 0.5 else "0", btok(rng, n, nulfree=True))]
        if full_ok:
            c.append("xfull " + btok(rng, rng.choice([1, 2, 100, 1000, 4096, 4097, 70000]), nulfree=True))
        cases.append(c)
    # whole-file readers of one object: twice, after a lazily opening writer, after reopening, after another writer
    for i in range(160 if quick else 2500):
        k = rng.choice("ft")
        n = rng.choice([0, 1, 2, 3, 5, 100, 4096, 5000, 70000])
        pre = rng.choice([b"", b"", b"\xef\xbb\xbf", b"\xef\xbb", b"\xef"]) if k == "t" else b""
        body = hexs(pre + bytes(rng.randrange(1, 256) for _ in range(n))) if n <= 100 else btok(rng, n, nulfree=True)
        c = ["%s %s %s" % (rng.choice(["xtwice", "xputread", "xreopen"]), k, body)]
        c.append("xstale %s %s %s" % (k, btok(rng, rng.choice([0, 2, 10, 5000]), nulfree=True), btok(rng, rng.choice([0, 1, 6, 100, 9000]), nulfree=True)))
        cases.append(c)
    return cases


# Protocol of the h-operations (persistent objects hnew/hopen/hclose/hflush/hw/happ/hput/hsh/hsize/hexists/hisfile/hisdir/hmtime/
# hcontent/hfirst/hr/htext/hlines), applied identically by harness/c17.cpp and lean/Driver/C17.lean from the operation history alone:
#  * an object is DIRTY after a write through it until it is flushed or closed, or until its own size()/content()/text()/firstBytes()
#    flush it; while ANOTHER object of the path is dirty, how much is on disk is stdio's business (not the property's): sizes of that
#    path are printed `?`, reads of it are refused (`err dirty`); the writing object itself is always answered exactly;
#  * a stat-backed query on a CLOSED object while its path is dirty makes it POISONED (its cache holds an undetermined size): its
#    hsize prints `?` until close()/content()/text() discard the cache or the object is open (an open object asks again);
#  * content()/text()/lines()/firstBytes() leave the object as it was: a closed one opens, reads and closes, an open one (any mode)
#    flushes and reads through a fresh handle, so they are never refused except for another object's unflushed data; read() works on
#    an explicitly opened reader only and is refused when STALE (the path was written since it was opened); two writers on one path
#    are refused (`err busy`); hopen on an open object is a plain open() (the library closes the old handle itself);
#    hcopy/hmove (File::copy/File::move of the object, to a path or to `full` = /dev/full) are refused (`err busy`) while another
#    object is open on the source or any object on the destination;
#  * observations through temporaries (raw size content text lines exists first) leave the objects alone, every other non-h operation
#    calls close() on all of them first.
OBJ_SIZES = [0, 1, 2, 3, 100, 255, 1000, 4095, 4096, 4097, 5000, 8191, 8192, 8193, 12288, 70000, 100000]
OBJ_QUERIES = ["size", "exists", "isfile", "isdir", "mtime"]
H_QUERIES = ["hsize", "hsize", "hexists", "hisfile", "hisdir", "hmtime"]


def _hwrite(rng, h, kind, small=False):
    n = rng.choice([0, 1, 5, 100, 255]) if small else rng.choice(OBJ_SIZES)
    if kind == "t":
        op = rng.choice(["hw", "happ", "hput", "hsh"])
    else:
        op = rng.choice(["hw", "hw", "hput", "hsh"])
    return "%s %d %s" % (op, h, btok(rng, n, nulfree=rng.random() < 0.8))


def gen_obj_history(rng):
    """histories on PERSISTENT File/TextFile objects (several per path, each open or closed): open / lazily opening writers /
    flush / stat-backed queries on open or closed objects / close / content, text, lines, firstBytes, read through the same
    object or a fresh temporary / reopen"""
    c = []
    shape = rng.random()
    main = rng.choice(PATHS)
    if shape < 0.45:
        # the window of the cached stat information: write, query while open (possibly unflushed), write, close, read back
        k = rng.choice("ft")
        c.append("hnew 0 %s %s" % (main, k))
        if rng.random() < 0.3:
            c.append("rawput %s %s" % (main, btok(rng, rng.choice([0, 3, 100, 5000]))))
            c.append("hnew 0 %s %s" % (main, k))
        if rng.random() < 0.3:
            c.append(rng.choice(H_QUERIES) + " 0")            # a query before opening: cached while closed
        if k == "t" and rng.random() < 0.4:
            pass                                               # lazily opening writers of TextFile
        else:
            c.append("hopen 0 " + rng.choice(["w", "w", "a", "a", "rw"]))
        for _ in range(rng.randrange(1, 4)):
            c.append(_hwrite(rng, 0, k))
            r = rng.random()
            if r < 0.6:
                c.append(rng.choice(H_QUERIES) + " 0")
            elif r < 0.75:
                c.append("hflush 0")
                c.append(rng.choice(H_QUERIES) + " 0")
            if rng.random() < 0.2:
                c.append("size " + main)
            if rng.random() < 0.3:
                c.append(rng.choice(["hcontent 0", "hfirst 0 %d" % rng.choice([0, 2, 5000]), "htext 0" if k == "t" else "hcontent 0", "hsize 0"]))
        if rng.random() < 0.25:
            c += ["hsize 0", "hcontent 0", "hcontent 0"]         # still open for writing: answered through a fresh handle
        if rng.random() < 0.2:
            c += ["hopen 0 r", "hcontent 0", "hfirst 0 3"]        # reopened without close(): nothing may be lost
        if rng.random() < 0.25:
            other = rng.choice([p for p in PATHS if p != main])
            c += ["hcopy 0 " + other, "raw " + other]              # File::copy with unflushed writes
        if rng.random() < 0.12:
            other = rng.choice([p for p in PATHS if p != main])
            c += ["hmove 0 " + other, "raw " + other, "exists " + main, "hnew 0 %s %s" % (other, k)]
            main = other
        c.append("hclose 0")
        tail = ["hsize 0", "hcontent 0", "hcontent 0", "hfirst 0 4", "raw " + main, "size " + main, "content " + main]
        if k == "t":
            tail = ["hsize 0", rng.choice(["htext 0", "hlines 0", "hcontent 0"]), rng.choice(["htext 0", "hcontent 0", "hlines 0"]),
                    rng.choice(["happ 0 78", "hlines 0", "hw 0 79"]), "hlines 0", "raw " + main, "text " + main]
        if rng.random() < 0.3:
            tail.insert(0, rng.choice(["hexists 0", "hisfile 0"]))
        c += tail
        if rng.random() < 0.5:
            # reopen the same object and go round again
            c.append("hopen 0 " + rng.choice(["a", "w", "r"]))
            if c[-1].endswith("r"):
                c += ["hr 0 %d" % rng.choice([1, 100, 4096, 100000]), "hfirst 0 2", "hcontent 0", "hr 0 3", "hsize 0", "hclose 0", "hsize 0"]
            else:
                c += [_hwrite(rng, 0, k), rng.choice(H_QUERIES) + " 0", "hclose 0", "hsize 0", "hcontent 0", "raw " + main]
        return c
    if shape < 0.7:
        # two objects on one path: a writer and an observer that queries while the writer has unflushed data
        k0, k1 = rng.choice("ft"), rng.choice("ft")
        c += ["hnew 0 %s %s" % (main, k0), "hnew 1 %s %s" % (main, k1)]
        if rng.random() < 0.5:
            c.append("hsize 1")
        c.append("hopen 0 " + rng.choice(["w", "a"]))
        for _ in range(rng.randrange(1, 4)):
            c.append(_hwrite(rng, 0, k0))
            c.append(rng.choice(H_QUERIES) + " " + rng.choice("01"))
            if rng.random() < 0.3:
                c.append("hflush 0")
            if rng.random() < 0.3:
                c.append("hopen 1 " + rng.choice(["r", "a", "w"]))
        c.append("hclose 0")
        c += ["hsize 0", "hsize 1", "hclose 1", "hsize 1", "hcontent 1", "hcontent 0", "raw " + main]
        if k1 == "t":
            c += ["hclose 1", "htext 1"]
        return c
    # free mixture
    nh = rng.randrange(1, 4)
    kinds = []
    for h in range(nh):
        kinds.append(rng.choice("ft"))
        c.append("hnew %d %s %s" % (h, main if rng.random() < 0.8 else rng.choice(PATHS), kinds[h]))
    for _ in range(rng.randrange(6, 26)):
        h = rng.randrange(nh)
        r = rng.random()
        if r < 0.25:
            c.append(_hwrite(rng, h, kinds[h], small=rng.random() < 0.6))
        elif r < 0.4:
            c.append("hopen %d %s" % (h, rng.choice(["r", "w", "a", "a", "rw"])))
        elif r < 0.52:
            c.append("hclose %d" % h)
        elif r < 0.58:
            c.append("hflush %d" % h)
        elif r < 0.75:
            c.append("%s %d" % (rng.choice(H_QUERIES), h))
        elif r < 0.9:
            op = rng.choice(["hcontent", "hcontent", "htext", "hlines", "hfirst", "hr"])
            if op in ("hfirst", "hr"):
                c.append("%s %d %d" % (op, h, rng.choice([0, 1, 10, 4096, 100000])))
            else:
                c.append("%s %d" % (op, h))
        elif r < 0.93:
            q = rng.choice(PATHS + (["full"] if _full_ok() else []))
            c.append("%s %d %s" % (rng.choice(["hcopy", "hmove"]), h, q))
            if q != "full":
                c.append("raw " + q)
            c.append("raw " + main)
        elif r < 0.96:
            c.append(rng.choice(["size", "content", "raw", "text", "lines", "exists"]) + " " + main)
        else:
            c.append(rng.choice(["put %s %s" % (main, btok(rng, 10)), "rm " + main, "hnew %d %s %s" % (h, main, kinds[h])]))
    for h in range(nh):
        c += ["hclose %d" % h, "hsize %d" % h, "hcontent %d" % h]
    c.append("raw " + main)
    return c


def gen_history(rng, xdev_ok):
    c = []
    if xdev_ok and rng.random() < 0.4:
        c.append("dev2 1")
    main = rng.choice(PATHS)
    other = rng.choice([p for p in PATHS if p != main])
    nops = rng.randrange(3, 25)
    in_sess = None
    for _ in range(nops):
        p = main if rng.random() < 0.8 else other
        r = rng.random()
        n = rng.choice([0, 1, 2, 5, 17, 254, 255, 256, 600]) if rng.random() < 0.85 else rng.choice([4095, 4096, 4097, 8192, 65536, 70000])
        if in_sess == "w" and r < 0.6:
            op = rng.choice(["w", "w", "w", "sb", "ss", "sc", "si", "rlc", "rl", "end", "r", "end"])
            if op in ("rlc", "rl", "end", "r"):
                # reading through a writer: comes back empty-handed, and end() says so afterwards
                c.append("rlc %02x" % rng.choice([10, 13, 97]) if op == "rlc" else "r %d" % rng.choice([0, 1, 100]) if op == "r" else op)
                if op == "r":
                    c.append("end")
                continue
            if op == "si":
                c.append("si %d" % rng.choice([0, 1, -1, 2147483647, -2147483648, rng.randrange(-10 ** 6, 10 ** 6)]))
            elif op == "sc":
                c.append("sc " + btok(rng, min(n, 600), nulfree=rng.random() < 0.7))
            else:
                c.append("%s %s" % (op, btok(rng, n)))
            continue
        if in_sess == "r" and r < 0.6:
            op = rng.choice(["r", "r", "rl", "rl", "rlc", "end", "seek", "pos"])
            if op == "r":
                c.append("r %d" % rng.choice([0, 1, 2, 3, 254, 255, 4096, 100000]))
            elif op == "seek":
                c.append("seek %d" % rng.randrange(0, 100000))
            elif op == "rlc":
                c.append("rlc %02x" % rng.choice([10, 13, 59, 97, 120, rng.randrange(1, 256)]))
            else:
                c.append(op)
            continue
        if r < 0.12:
            c.append("put %s %s" % (p, btok(rng, n)))
        elif r < 0.2:
            c.append("tput %s %s" % (p, btok(rng, n, nulfree=rng.random() < 0.8)))
        elif r < 0.3:
            c.append("tapp %s %s" % (p, btok(rng, n, nulfree=rng.random() < 0.8)))
        elif r < 0.34:
            t, _ = gen_text(rng, 4)
            c.append("rawput %s %s" % (p, hexs(t)))
        elif r < 0.5:
            m = rng.choice(["w", "a", "a", "rw", "r"])
            c.append("open %s %s %s" % (p, rng.choice("ft"), m))
            in_sess = "r" if m == "r" else "w"
            continue
        elif r < 0.56:
            c.append("close")
        elif r < 0.72:
            c.append(rng.choice(["content", "size", "raw", "raw", "exists", "text", "lines"]) + " " + p)
        elif r < 0.76:
            c.append("first %s %d" % (p, rng.choice([0, 1, 10, 255, 70000])))
        elif r < 0.84:
            q = rng.choice(PATHS)
            c.append("%s %s %s" % (rng.choice(["copy", "move"]), p, q))
            c.append("raw " + q)
            c.append("raw " + p)
        elif r < 0.9:
            d = rng.choice([1, 2])
            c.append("%s %s %d" % (rng.choice(["copyd", "moved"]), p, d))
            for q in PATHS:
                c.append("raw " + q)
        elif r < 0.915 and _full_ok():
            c.append("%s %s full" % (rng.choice(["copy", "move"]), p))
            c.append("raw " + p)
        elif r < 0.93:
            c.append("rm " + p)
        else:
            c.append("raw " + p)
        in_sess = None
    c += ["close", "raw " + main, "content " + main, "size " + main, "raw " + other]
    return c


def simplify_line(line):
    """shorter byte-string arguments for a failing line (tried after ddmin)"""
    t = line.split()
    for i, tk in enumerate(t[1:], 1):
        if re.fullmatch(r"(?:[0-9a-f]{2}){5,}", tk):
            for cand in (tk[:2], tk[-2:], tk[:8], tk[-8:], "61", "0d0a"):
                yield " ".join(t[:i] + [cand] + t[i + 1:])
        m = re.fullmatch(r"([gt])(\d+)\.(\d+)", tk)
        if m and int(m.group(2)) > 0:
            n = int(m.group(2))
            for k in (n // 2, n - 1, 65537, 65536, 255, 1):
                if 0 <= k < n:
                    yield " ".join(t[:i] + ["%s%d.1" % (m.group(1), k)] + t[i + 1:])


def extra(ctx):
    """housekeeping only: remove the scratch directories of harness processes that died in a sanitizer abort
    (a live harness removes its own at exit; directory names carry the pid)"""
    import glob
    import shutil
    for d in glob.glob("/tmp/aslc17-*") + glob.glob("/dev/shm/aslc17-*"):
        m = re.match(r".*/aslc17-(\d+)-", d)
        if m and not os.path.exists("/proc/" + m.group(1)):
            shutil.rmtree(d, ignore_errors=True)
    return []


# ------------------------------------------------------------------------------------------------ reporting

RULE = ("cases = (A) every size class (0..39, around 254k/255k, 4096, 65536k, up to 200000 / 16 MiB in the thorough tier) written through "
        "each of 9 asl writers and read back by content()/size()/POSIX, copied and moved (same device and across devices), read back in pieces; "
        "(B) texts: all strings over {a CR LF} up to a length, runs of 248..258/504..511 x followed by every short tail over {x CR LF}, random "
        "NUL-free texts with LF / CRLF / CR CR LF / lone CR and line lengths 0..2000 concentrated around multiples of 254, through lines(), "
        "readLine() and readLine(String&) sessions; (C) scalar sequences in UTF-8-BOM / UTF-16LE / UTF-16BE / no BOM, plus hostile bytes behind "
        "BOMs; (D) random histories of put/write/append/stream/open/close/read/seek/copy/move/remove on four paths in two directories; "
        "(E) persistent objects: xobj (one object: open, write, stat-backed query while open, write, close, then size/text/content of the "
        "same object, sizes straddling the 4096-byte stdio buffer) and histories on up to 4 File/TextFile objects per case (several on one "
        "path; explicit and lazy opens, flush, queries on open and closed objects, close, read back through the same object or a fresh "
        "one, reopen); "
        "non-trivial = distinct case with at least one non-empty byte-string argument")


def nontrivial(case):
    for l in case:
        for tk in l.split()[1:]:
            if re.fullmatch(r"(?:[0-9a-f]{2})+", tk) or (re.fullmatch(r"[gt]\d+\.\d+", tk) and not tk.startswith(("g0.", "t0."))):
                return True
    return False


def _bucket(n):
    for lim, name in ((0, "0"), (253, "1..253"), (256, "254..256"), (4095, "257..4095"), (65535, "4096..65535"), (65537, "65536±1"),
                      (200000, "65538..200000"), (1 << 20, "..1MiB")):
        if n <= lim:
            return name
    return ">1MiB"


def distribution(cases):
    ops = {}
    sz = {}
    ends = {"LF": 0, "CRLF": 0, "CRCRLF": 0, "final_line_without_newline": 0, "empty_file": 0}
    linelen = {"0": 0, "1..252": 0, "253..256": 0, "257..2000": 0, ">2000": 0}
    bom = {"utf8bom": 0, "utf16le": 0, "utf16be": 0, "none": 0}
    hist = 0
    histlen = 0
    objh = 0
    objq = 0
    xdev = {"xdev_ok": _xdev_ok(), "dev_full_ok": _full_ok(), "to_dev_full": sum(1 for c in cases for l in c if l.startswith("xfull") or l.endswith(" full")), "xmove_xdev": 0, "xmove_same_device": 0, "dev2_1_histories": 0, "moves_in_dev2_1_histories": 0}
    crlf_split = 0
    nearbom = 0
    for c in cases:
        if "dev2 1" in c:
            xdev["dev2_1_histories"] += 1
            xdev["moves_in_dev2_1_histories"] += sum(1 for l in c if l.startswith(("move ", "moved ")))
        if any(l.startswith("hnew") for l in c):
            objh = objh + 1
            if any(c[i].startswith(("hw", "happ", "hput", "hsh")) and c[i + 1].startswith(("hsize", "hexists", "hisfile", "hisdir", "hmtime"))
                   for i in range(len(c) - 1)):
                objq = objq + 1
        elif any(l.startswith(("open", "put", "tput", "tapp")) for l in c) and not c[0].startswith("x"):
            hist += 1
            histlen += len(c)
        for l in c:
            t = l.split()
            ops[t[0]] = ops.get(t[0], 0) + 1
            if t[0] in ("xput", "xseq", "xobj", "hw", "happ", "hput", "hsh", "xcopy", "xmove", "xfo", "put", "tput", "tapp", "rawput", "w", "sb", "ss"):
                b = _bucket(tok_len(t[-1]))
                sz[b] = sz.get(b, 0) + 1
            if t[0] in ("xlines", "xrl", "xrlw") and tok_len(t[1]) <= 100000 and t[1][0] not in "gt":
                b = unhex(t[1])
                if not b:
                    ends["empty_file"] += 1
                ends["CRCRLF"] += b.count(b"\r\r\n")
                ends["CRLF"] += b.count(b"\r\n")
                ends["LF"] += b.count(b"\n") - b.count(b"\r\n")
                if b and not b.endswith(b"\n"):
                    ends["final_line_without_newline"] += 1
                for s in b.split(b"\n"):
                    n = len(s)
                    k = "0" if n == 0 else "1..252" if n <= 252 else "253..256" if n <= 256 else "257..2000" if n <= 2000 else ">2000"
                    linelen[k] += 1
            if t[0] == "xmove":
                xdev["xmove_xdev" if t[1] == "1" else "xmove_same_device"] += 1
            if t[0] in ("xlines", "xrl", "xrlw") and t[1][0] not in "gt" and tok_len(t[1]) <= 100000:
                for seg in unhex(t[1]).split(b"\n")[:-1]:
                    if seg.endswith(b"\r") and len(seg) % 254 == 0:
                        crlf_split += 1
            if t[0] == "xtext":
                b = tok_bytes(t[1])
                if b[:1] in (b"\xef", b"\xff", b"\xfe") and b[:2] not in (b"\xff\xfe", b"\xfe\xff") and b[:3] != b"\xef\xbb\xbf":
                    nearbom += 1
                k = "utf16le" if b[:2] == b"\xff\xfe" else "utf16be" if b[:2] == b"\xfe\xff" else "utf8bom" if b[:3] == b"\xef\xbb\xbf" else "none"
                bom[k] += 1
    return {"ops_by_kind": ops, "written_sizes": sz, "line_ends": ends, "line_lengths": linelen, "xtext_by_bom": bom,
            "cross_device": xdev, "crlf_split_across_fgets_chunks": crlf_split, "xtext_near_bom_prefix": nearbom,
            "object_histories": objh, "object_histories_with_query_right_after_write_while_open": objq,
            "histories": hist, "mean_history_length": round(histlen / hist, 1) if hist else 0}


EXHAUSTIVE = {"quick": "all texts over {a, CR, LF} of length <= 5 through lines()/readLine(); x^n (n in 250..256, 507..509) followed by every tail of length <= 3 over {x, CR, LF}",
              "thorough": "all texts over {a, CR, LF} of length <= 7; x^n (n in 248..258, 504..511, 761..763) followed by every tail of length <= 4 over {x, CR, LF}"}

TRUSTED = ["tools/props/c17.py translate(): regex shape checks of readLine/lines/end/text/append/write/operator<< (src/TextFile.cpp), "
           "open/content/firstBytes/put/read/write (src/File.cpp), Directory::copy/move/remove (src/Directory.cpp, POSIX half) and extraction of "
           "chunk, copy block, fopen mode strings, BOM bytes, size mask, UTF-16 byte order into lean/Gen/FileGen.lean",
           "lean/AslModel/Utf.lean fromWide/utf16toUtf8 (C08's model of String(const wchar_t*)), reused by text()"]
ASSUMPTIONS = ["fopen modes (C11 7.21.5.3): r needs the file, w creates/truncates, a creates and writes at the end, + adds the other direction; b/t ignored (POSIX)",
               "an output stream delivers all bytes given to fwrite/fputs, in order, at its position, when it is flushed or closed (fflush/fclose). THE MODEL HAS NO STDIO BUFFER (it writes through): "
               "what it says about an object still open for writing holds for the code only because every observation path of such an object (size, content, text, lines, firstBytes, File::copy, "
               "File::move, open of an open object) calls fflush/fclose first — shape-checked by translate(), compared on real files by K, not provable in the model",
               "fgets(buf, n, f): at most n-1 bytes, stops after the first LF, NULL when nothing was stored (at the end of the file; or on a stream that cannot be read, e.g. opened for writing: "
               "then with the error indicator set and EOF not set), sets the EOF indicator exactly when it runs out of bytes",
               "fread of >= 1 byte and fgets on a write-only stream fail and set ferror (a 0-byte fread touches nothing); fseek does not clear ferror; feof stays false",
               "fread(p, 1, n, f) returns the next min(n, remaining) bytes and sets the EOF indicator iff fewer than n remained; feof reads it; fseek clears it; ftell = offset",
               "stat().st_size is the file length; rename() replaces the destination and fails with EXDEV across devices (/tmp vs /dev/shm); unlink removes the file",
               "String(const char*, n), String::resize/fix keep n bytes (C03); String(const wchar_t*) is AslModel.Utf.fromWide (C08)",
               "theorems about lines assume NUL-free content (readLine uses strlen; the model keeps the strlen behaviour and K exercises it); "
               "files are smaller than 2 GiB (text() masks the size with 0x7fffffff)"]
TECHNIQUE = ("Lean 4 theorems (induction over byte lists / histories) about an executable model of File, TextFile and Directory::copy/move "
             "whose constants are regenerated from the source + differential correspondence check against the real library on real files")
LEVEL_TEXT = ("Proved in Lean 4 about the executable model the driver runs (AslModel/FileText.lean), for ALL inputs: lines() = split at LF with "
              "one CR removed before each LF, for every NUL-free content, every line length, with or without final newline, the empty file, and every "
              "fgets chunk size >= 2 (lines_spec; 255 is regenerated from the source); each readLine(String&) call returns the next line and "
              "leaves the stream behind its LF, the last unterminated piece sets EOF (readLine_lf, readLine_last); text() returns a file "
              "without byte-order mark unchanged, drops the UTF-8 signature, and returns every NUL-free scalar-value sequence behind a "
              "UTF-16LE/BE mark as the UTF-8 encoding of that sequence with every CR LF folded to LF and nothing else changed (text_utf16_fold, "
              "through C08's utf16toUtf8 model), hence as its own UTF-8 encoding whenever it has no adjacent CR LF (text_utf8, text_bom_utf8, "
              "text_utf16_partial), never reading outside its buffers on any bytes (text_total); the full UTF-16 statement is refuted by CR LF "
              "(text_utf16_crlf_counterexample, known finding); readLine(char) returns the bytes before the next delimiter (readLine_delim); LF-free lines written with CR LF (or LF) between "
              "them are read back exactly (lines_join_crlf, lines_join_lf, write_lines_read_lines); any history of put / TextFile write / append / objects opened in READ, WRITE, "
              "APPEND, RW mode and written through any number of times leaves exactly the bytes a reference store predicts and touches no "
              "other path (store_refines), and content/size/firstBytes/read return those bytes (read_back, read_seq, written_is_read); the "
              "Directory::copy block loop writes exactly the source for every size and block size (copy_exact), copy and move (rename or "
              "EXDEV copy+remove) leave exactly the source bytes at the destination (copy_preserves, move_preserves, *_refusals). The model's "
              "constants (chunk, copy block, fopen mode strings, BOM bytes, size mask, UTF-16 byte order) are regenerated from /repo and the "
              "shape of every transcribed function is re-checked on each run (G); the model is tied to the real library, real files and the "
              "real libc by the correspondence check (K), and an independent python reference judges lines/text/round trips/copy/move.")
LEVEL_TEXT += (" Persistent objects (lazily opened handle + cached stat information, transcribed from File.h/File.cpp/TextFile.cpp): after "
               "close() every object, whatever it cached and wherever its handle stood, answers size/content/firstBytes/lines/text from the "
               "path's current bytes (obj_after_close), and so do content/text/firstBytes of an object in ANY state — open in any mode at any "
               "position, anything cached — and size() of an open object (obj_reads); they leave the object as it was, so a lazily opening writer still works afterwards "
               "(obj_readers_keep_state, obj_read_then_append); File::copy/move of a written-through object carry everything written "
               "(obj_copy_move_preserve — like every statement here about an object still open for writing, under the assumption that its "
               "observation paths flush first: the model has no stdio buffer); stat-backed queries interleaved with writes on an open object change neither disk "
               "nor handle (obj_history); open for WRITE, any sequence of writes and queries, close: size() is the number of bytes written "
               "and content() exactly those bytes (obj_write_query_close).")
LEVEL_TEXT += (" End to end: after any history of writers, if the reference store holds c then a fresh object returns c / c.length / "
               "c.take n / the lines and text of c (history_read_back); a BOM-free string written with TextFile is what text() returns "
               "(write_then_text); successive reads of a freshly opened File are consecutive pieces (read_seq_open); objects opened for "
               "WRITE or APPEND, and the lazily opening writers (TextFile write/put/<</append, File put), with any writes and queries, "
               "then close: old bytes (append) + everything written (obj_write_query_close, obj_lazy_write_query_close). "
               "content() clauses carry the bound < 2 GiB (content() casts size() to int). NOT proved, only transcribed and K-checked "
               "(definitional lemmas that unfold a model definition): what a read through a stream that cannot be read returns and that end() is "
               "true afterwards (readLine_delim_total first half, failed_read_ends: repairs 95952ce, 4bfeeba), the outcome of copy/move to a "
               "destination that accepts no byte (full_device: repair 78aac25), and everything about directories (driver constants xdirlines, "
               "xdirrlc, xdirend, xdircopy: repairs 9eba4eb, 95952ce, 4bfeeba, bbbf8e1).")
LEVEL_TEXT += (" Extension round: the loop `while (f.readLine(s)) out << s;` driven by the bool result of readLine(String&) "
               "(readWhile, terminating on every content): the strings delivered with true followed by the string the final false call "
               "leaves are exactly the lines of the NUL-free remaining text, the true strings are exactly the LF-terminated pieces and the "
               "left-over the unterminated tail, stream at its end (readLine_while_spec, readLine_while_terminated, readLine_while_of_file; "
               "K op xrlw, python reference). open(name, mode) / File(name, mode) / TextFile(name, mode) record the name whether or not the "
               "open succeeded (Obj.openAt; failed_open_keeps_path); after a failed READ-open on a missing path the object is exactly a "
               "path-only object of the new path and a lazy write creates and fills that file, every other path untouched "
               "(failed_open_is_fresh, failed_open_then_write; K op xfo).")
LEVEL_TEXT += (" Second extension: reading back with the stream operators — File::operator>>(String&) (int32 length in host order "
               "through the generic operator>>, then min(n, 1024)-byte reads until n bytes or an empty read; readI32, shrLoop, readStr, "
               "hreadStr; buffer size and loop shape regenerated from File.h as Gen.File.shrBlock): for every byte string s shorter than "
               "2^31 (NULs included), any following bytes and ANY buffer size >= 1, `f >> x` on a file holding le32(|s|) ++ s ++ tail — what "
               "`f << int(s.length()) << s` wrote (le32_spec) — returns exactly s, the stream right behind it, end-of-file untouched "
               "(shr_int_inverse, shr_string_inverse, shr_string_of_file); a length beyond the end of the file gives the bytes that are there "
               "with end-of-file set (shr_string_beyond), a negative length the empty string (shr_string_negative). K ops xshw (write with "
               "<< int << String << ByteArray, read with >>, then the rest) and xshr (raw files: truncated/negative/over-long lengths), python reference.")
LEVEL_NOTE = ("Hypotheses (modelled, exercised by K, not verified): stdio and POSIX behave as listed under `assumptions` (fopen modes, fwrite "
              "delivery by fflush/fclose, fgets/fread/feof/ferror, stat size, rename/EXDEV/unlink). The model has no stdio buffer: the theorems about "
              "objects still open for writing (obj_reads open branch, obj_write_query_close `while still open`, obj_copy_move_preserve, "
              "obj_open_closes) assume that every observation path of an open object flushes first; they would hold verbatim for the code before "
              "the repairs ae75f36 (flush half), b3be5cd, a48095a, which only K (xputread, xobjcopy, xreopen, hcopy, h-histories) and the "
              "translate() shape strings see; the line theorems assume NUL-free content "
              "(readLine measures chunks with strlen; the model transcribes that and K covers NUL content, but no theorem speaks about it) and "
              "files are < 2 GiB (text() masks the size). What another object's size() answers while a writer has unflushed data is not "
              "compared (printed `?` by both sides; the writer itself flushes in size()/content()/text()/firstBytes() and is compared; see the "
              "protocol comment in tools/props/c17.py). Known finding stale-size-closed-object: size() of an object that is NOT open answers "
              "from the size it cached before another object changed the file (the cache exists so that Directory listings need no stat per "
              "file; exists()/close()/content()/text() discard it) — transcribed in the model, KNOWN probe xstalesize, obj_reads leaves "
              "exactly that case out; read() of an explicitly opened object continues from its position (that is what it is for). "
              "Partial: text_utf16_partial excludes "
              "exactly the texts with an adjacent CR LF (known finding utf16-crlf-fold: deliberate folding in TextFile::text(), "
              "text_utf16_crlf_counterexample); paths are abstract (4 names in 2 directories: no symlinks/hard links, permissions or disk-full "
              "errors, so the failing-copy branch of the EXDEV move is in the model but never taken by K); printf/scanf/operator>> of "
              "TextFile, File::temp, Windows halves are outside the model. Stream operators: what `<<(const char*)`, `TextFile << int` "
              "(String(int), C03's formatting) and `File << int` in native byte order hand to fwrite is in the model (cstr, decimal, le32 with "
              "cstr_spec, decimal_spec, le32_spec); File >> int (native order) and File >> String are in the model "
              "(readI32, readStr; shr_* theorems, ops xshr/xshw), `>>` of other T, of Array<T> and of char/byte are not; "
              "the `_endian` swap of File::operator<<(const T&) / operator>>(T&) / setEndian belongs to C16 and is not "
              "exercised here, other T of the TextFile template (double, ...) are C03's formatting. content() of a file of 2 GiB or more "
              "returns nothing ((int)size() is negative; observed on a sparse file, no memory error): outside the quantifier, theorems carry "
              "the bound. Repaired in /repo for this property: copy onto itself truncated "
              "the file (576b460); cross-device move returned false and removed the source unconditionally (a7085af); readLine read one byte "
              "before its buffer on a line starting with NUL (d08b735, outside the property's NUL-free domain); text() compared "
              "uninitialised bytes with the byte-order marks when the file is shorter than the object's cached size (a78e103); size() of an "
              "open object ignored what was written through it and content()/text() used a stale cached size (ae75f36); content()/text()/"
              "firstBytes() of an object that is already open read from its current position, and returned nothing when it was open for writing "
              "(b600b6e, 4c57e14: they now flush and read through a separate handle); open() on an open object leaked the old handle with its "
              "unflushed data (a48095a); lines() of an open object started at its position and never returned when it was open for writing "
              "(b935145), and looped forever on a read error (9eba4eb); the whole-file readers left the object open read-only so that a "
              "following append/write/put failed (630b40d); File::copy/move ignored the object's unflushed writes (b3be5cd); Directory::copy "
              "reported success when the final flush failed and move then deleted the source (78aac25). readLine(char) never returned after a failed "
              "read (95952ce); end() tested feof only (4bfeeba); Directory::copy ignored a read error on the source (bbbf8e1). K-ONLY among these "
              "(no model counterpart beyond a transcribed definition or a driver constant): 9eba4eb, 95952ce, 4bfeeba, bbbf8e1, 78aac25 — the model has "
              "no I/O errors: `copyToFull/moveToFull` write the outcome for /dev/full into their definition (full_device only unfolds it), reads through "
              "a writer set an error flag by definition (failed_read_ends, readLine_delim_total first half only unfold it), FileText.copy has no source-error "
              "branch, and the four directory operations xdirlines, xdirrlc, xdirend, xdircopy are constants in lean/Driver/C17.lean that nothing in "
              "AslModel produces. obj_write_query_close covers objects opened WRITE or APPEND (and the lazy writers); objects opened RW or READ and then "
              "written through are covered by store_refines for the disk, not by an object-level theorem.")
