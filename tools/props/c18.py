"""C18 — IniFile and TabularDataFile persist exactly what was set or written: plugin for tools/check.py"""
import csv
import io
import re

from lib.core import hexs, unhex

ID = "C18"
PROPS_MODULE = "AslProps.C18"
DRIVER = "c18"
RULE = ("cases = (a) IniFile histories on one path: an INI text generated from sections, key=value lines (identifier keys, "
        "outer-blank-free values, optional blanks around key, '=' and value), '#'/';' comments and blank lines, LF or CRLF, with "
        "or without final newline, lines longer than the 255-byte fgets chunk; then up to 20 set()/operator[]= calls on existing "
        "keys, new keys in existing sections, new sections and section-less keys, interleaved with get/values, explicit write() "
        "and/or destruction, reopen, and a fresh read-only IniFile at the end; an IniFile on a path that opens but cannot be read (a directory); (b) the same as one composite op judged by an "
        "independent python INI semantics; (c) 'wild' INI texts outside the grammar (garbage lines, unclosed or indented headers, "
        "'/' in keys, blank-padded values) for the model correspondence only; (d) tables up to 30x8 written through "
        "TabularDataFile (cell by cell, and rows handed over as array Vars incl. the same array object sent again and arrays shorter/longer "
        "than the column count; also after setSeparator(';' or tab) / setDecimal(',')) and read back, cells = %.15g numbers of every magnitude 4.9e-324..1.8e308 (subnormals included), ints, empty strings, strings over "
        "letters digits , ; \" ' space - . e +; (e) arbitrary CSV texts through the reader; (f) myatof on number lexemes; "
        "non-trivial = distinct case with at least one set on a non-empty text, or a table with at least one non-empty cell")
TRUSTED = ["harness/c18.cpp number cells: strtod() of the %.15g lexeme produces the double handed to TabularDataFile, "
           "printf(\"%.15g\") prints the doubles read back"]
ASSUMPTIONS = [
    "fgets/feof: a line ends at LF; at end of file the partial line is returned and feof becomes true; after a final LF feof is "
    "still false (AslModel.Ini.splitLF, AslModel.Csv.takeLine; exercised by K on every text incl. lines of 250..600 bytes)",
    "texts and strings are NUL-free (C strings)",
    "snprintf(\"%.15g\") of the double nearest to a decimal of <= 15 significant digits prints that decimal (DBL_DIG = 15); "
    "strtod is correctly rounded",
    "double(y1) * pow(10.0, exp) (for exp < -300: double(y1) * pow(10.0, exp + 300) * 1e-300) with y1 < 10^15 is within 15 significant "
    "digits of y1*10^exp, resp. is the double whose %.15g text was read when that double is subnormal "
    "(the model carries the exact rational; K compares printf(\"%.15g\") of the library's double with the model's exact decimal)",
    "Dic<T> (sorted array + binary search) behaves as a finite map ordered by strcmp (C02)",
    "String primitives substring/indexOf/trim/operator== (C03)",
    "strtoul(text, NULL, 16) of libc with a 64-bit unsigned long: isspace blanks, optional sign ('-' negates the unsigned long), optional 0x/0X "
    "consumed only before a hex digit, longest hex-digit prefix, ULONG_MAX on overflow (AslModel.Csv.hexU32; exercised by K on 'h' columns "
    "incl. signs, blanks, junk tails, 2^32 and 2^64 overflow)",
]

NOSEC = b"-"

# ---------------------------------------------------------------- INI generator

KEYS = [b"a", b"b", b"key", b"name", b"num_retries", b"Color", b"x1", b"_id", b"k2", b"field9", b"Z", b"size", b"0start", b"path"]
SECS = [b"s", b"main", b"network", b"sec1", b"Sec 2", b"a.b", b"x_y", b"General", b"t"]
VALCH = b"abcxyzABC0123456789 _-./\\:;#=[]\"'!,()*%"


def rvalue(rng):
    r = rng.random()
    if r < 0.08:
        return b""
    if r < 0.12:
        return bytes(rng.choice(b"abcdefghij 0123456789") for _ in range(rng.randrange(240, 600))).strip() or b"x"
    if r < 0.2:
        return rng.choice([b"1", b"0", b"true", b"3.5", b"C:\\dir\\file.txt", b"http://h/p?q=1&r=2", b"a=b", b"[x]", b"#no comment", b";semi", b"caf\xc3\xa9"])
    n = rng.randrange(1, 14)
    v = bytes(rng.choice(VALCH) for _ in range(n)).strip(b" ")
    return v


def rblank(rng):
    return rng.choice([b"", b"", b"", b" ", b"  ", b"\t"])


def gen_doc(rng, tier):
    """list of items: ('h', name) | ('kv', ind, key, ws1, ws2, val, ws3) | ('c', text) | ('b', text)"""
    items = []
    nsec = rng.choice([0, 1, 1, 2, 2, 3, 4])
    indent = rng.choice([b"", b"", b"  ", b"\t", b"    "])
    def kvs(n):
        for _ in range(n):
            r = rng.random()
            if r < 0.12:
                items.append(("c", rblank(rng) + rng.choice([b"#", b";"]) + bytes(rng.choice(b"abc =[]#;1") for _ in range(rng.randrange(0, 10)))))
            elif r < 0.22:
                items.append(("b", rng.choice([b"", b"", b"", b"  ", b"\t"])))
            else:
                ind = indent if rng.random() < 0.8 else rblank(rng)
                items.append(("kv", ind, rng.choice(KEYS), rblank(rng), rblank(rng), rvalue(rng), rblank(rng)))
    # leading blank lines / comments
    for _ in range(rng.choice([0, 0, 0, 1, 2, 3])):
        items.append(("b", b""))
    if rng.random() < 0.4:
        kvs(rng.randrange(1, 4))   # section-less keys
    secs = [rng.choice(SECS) for _ in range(nsec)]
    if rng.random() < 0.05:
        secs.append(NOSEC)
    for s in secs:
        if rng.random() < 0.5 and items:
            items.append(("b", b""))
        items.append(("h", s))
        kvs(rng.randrange(0, 6))
    for _ in range(rng.choice([0, 0, 0, 1, 2])):
        items.append(("b", b""))
    return items


def render_item(it):
    if it[0] == "h":
        return b"[" + it[1] + b"]"
    if it[0] == "kv":
        return it[1] + it[2] + it[3] + b"=" + it[4] + it[5] + it[6]
    return it[1]


def render(items, eol, final_nl):
    t = eol.join(render_item(i) for i in items)
    if final_nl:
        t += eol
    return t


WILD_LINES = [b"garbage line", b"[unclosed", b" [indented]", b"=novalue", b"a/b=1", b"[s] ; trailing", b"!bang=1", b"k = padded value  ",
              b"\xc3\xa9cole=1", b"[s]x", b"key", b"[a]b]", b"x=1=2", b" = ", b"[]", b"[-]", b"k\t=\tv", b"9=9", b":c=1", b"<a>=1"]


def gen_sets(rng, items, n, wild):
    """set/put ops (name, value) touching existing keys, new keys, new sections, section-less keys"""
    existing = []
    cur = NOSEC
    secs = []
    for it in items:
        if it[0] == "h":
            cur = it[1]
            secs.append(cur)
        elif it[0] == "kv":
            existing.append((cur, it[2]))
    out = []
    for _ in range(n):
        r = rng.random()
        if r < 0.35 and existing:
            sec, key = rng.choice(existing)
        elif r < 0.6 and secs:
            sec, key = rng.choice(secs), rng.choice(KEYS)
        elif r < 0.85:
            sec, key = rng.choice(SECS + [b"new1", b"zz"]), rng.choice(KEYS)
        else:
            sec, key = NOSEC, rng.choice(KEYS)
        if wild and rng.random() < 0.15:
            key = rng.choice([b"a/b", b"k k", b" k", b"#k", b"k=", b"[k", b"", b";k", b".k", b"k ", b"k\r", b"\xc3\xa9", b"a=b", b"k #;[]", b"k]"])
        if wild and rng.random() < 0.1:
            sec = rng.choice([b"a]b", b" s ", b"", b"[s]", b" [=#", b"s;", b"#s", b"a=b"])
        val = rvalue(rng)
        if wild and rng.random() < 0.15:
            val = rng.choice([b" lead", b"trail ", b"\ttab\t", b" "])
        if sec == NOSEC and rng.random() < 0.5:
            name = key         # plain name: goes to the current section
        else:
            name = sec + b"/" + key
        out.append((name, val))
    return out


def gen_ini_case(rng, tier, wild):
    items = gen_doc(rng, tier)
    eol = b"\r\n" if rng.random() < 0.35 else b"\n"
    final_nl = rng.random() < 0.6
    lines = [render_item(i) for i in items]
    if wild:
        for _ in range(rng.randrange(1, 4)):
            lines.insert(rng.randrange(0, len(lines) + 1), rng.choice(WILD_LINES))
        text = eol.join(lines) + (eol if final_nl else b"")
    else:
        text = render(items, eol, final_nl)
    nsets = rng.choice([0, 1, 2, 3, 5, 8, 12, 20])
    sets = gen_sets(rng, items, nsets, wild)
    return items, text, sets


def ini_history(rng, tier, wild):
    items, text, sets = gen_ini_case(rng, tier, wild)
    r = rng.random()
    if r < 0.04:
        ops = ["load none 1"]
    elif r < 0.1:
        ops = ["load %s 0" % hexs(text)]
    else:
        ops = ["load %s 1" % hexs(text)]
    for name, val in sets:
        r = rng.random()
        if r < 0.12:
            ops.append("put %s %s" % (hexs(name), hexs(val)))
        else:
            ops.append("set %s %s" % (hexs(name), hexs(val)))
        r = rng.random()
        if r < 0.1:
            ops.append("get %s" % hexs(name))
        elif r < 0.15:
            ops.append("vals")
        elif r < 0.22:
            ops.append("write")
        elif r < 0.26:
            ops += ["close", "fresh", "reopen 1"]
    if rng.random() < 0.5:
        ops.append("write")
    ops.append("vals")
    ops.append("close")
    ops.append("fresh")
    if rng.random() < 0.3:
        # a second session on the file just written
        ops.append("reopen 1")
        for name, val in gen_sets(rng, items, rng.randrange(0, 4), wild):
            ops.append("set %s %s" % (hexs(name), hexs(val)))
        ops += ["close", "fresh"]
    return ops


def ini_composite(rng, tier, wild):
    items, text, sets = gen_ini_case(rng, tier, wild)
    mode = rng.choice(["w", "c"]) + ("x" if wild else "")
    f = "none" if (not wild and rng.random() < 0.03) else hexs(text)
    return ["inirt %s %s" % (mode, f) + "".join(" %s %s" % (hexs(n), hexs(v)) for n, v in sets)]


# ---------------------------------------------------------------- CSV generator

STRCH = b"abcXYZ ,;\"' 0123456789-.e+_"
COLS = [b"i", b"x", b"y", b"name", b"sign", b"value_1", b"Col", b"t"]
NUMLIKE = re.compile(rb"^-?(\d+(\.\d*)?|\.\d+)([eE][+-]?\d+)?$")


def fmt15(x):
    return ("%.15g" % x).encode()


def rnumber(rng):
    r = rng.random()
    if r < 0.25:
        return str(rng.randrange(-1000, 100000)).encode()
    if r < 0.3:
        return rng.choice([b"0", b"-0", b"1e+15", b"123456789012345", b"999999999999999", b"0.0001", b"9.99999999999999e-05", b"1e-05",
                           b"0.1", b"-2.5", b"1e+300", b"1.79769313486231e+308", b"2147483647", b"-2147483648", b"1234567890", b"1e+22", b"1e+23",
                           b"1.2345678901234e-300", b"4.94065645841247e-324", b"2.2250738585072e-308", b"2.2250738585072e-308", b"1e-307", b"-9.88131291682493e-324"])
    if r < 0.65:
        x = rng.uniform(-1000, 1000)
        if rng.random() < 0.5:
            x = round(x, rng.randrange(0, 6))
        return fmt15(x)
    # every magnitude a double has, subnormals included (7b5df72 repaired myatof below 1e-293)
    e = rng.randrange(-323, 301) if rng.random() < 0.8 else rng.randrange(-323, -285)
    x = rng.uniform(1, 10) * (10.0 ** e) * rng.choice([1, -1])
    lex = fmt15(x)
    if x == 0 or b"inf" in lex:
        return b"1"
    return lex


def numlike_in_range(s):
    """a number-like string the model and the library agree on: <= 15 mantissa digits, exponent within the range of rnumber()"""
    m = re.match(rb"^-?(\d*)(?:\.(\d*))?(?:[eE]([+-]?\d+))?$", s)
    if not m:
        return False
    ip, fp = m.group(1) or b"", m.group(2) or b""
    e = int(m.group(3) or b"0")
    return len(ip) + len(fp) <= 15 and -290 <= e - len(fp) and e + len(ip) <= 300


def rstring(rng, allow_numlike):
    r = rng.random()
    if r < 0.15:
        return b""
    if r < 0.3:
        return rng.choice([b"neg", b"pos", b"is, \"quoted\"", b"a;b", b"it's", b" lead", b"trail ", b"\"", b"\"\"", b",", b";", b" ", b"a\"b,c\"",
                           b"2024-01-05", b"-", b"1e", b"e5", b"+1", b"1.2.3", b".", b"-.", b"x,", b",x", b"caf\xc3\xa9", b"1-2", b"--1", b"1e+", b"0x10"])
    n = rng.randrange(1, 10)
    s = bytes(rng.choice(STRCH) for _ in range(n))
    return s


def gen_table(rng, tier, allow_numlike):
    ncols = rng.randrange(1, 9)
    nrows = rng.choice([0, 1, 2, 3, 5, 8, 13, 30])
    names = rng.sample(COLS, ncols)
    cells = []
    numlike = False
    for _ in range(ncols * nrows):
        if rng.random() < 0.45:
            cells.append("n:" + rnumber(rng).decode())
        else:
            s = rstring(rng, allow_numlike)
            if NUMLIKE.match(s):
                if allow_numlike and numlike_in_range(s):
                    numlike = True
                else:
                    s = b"x" + s
            cells.append("s:" + hexs(s))
    if rng.random() < 0.1 and ncols > 1:
        cells = cells[:len(cells) - rng.randrange(1, ncols)] if cells else cells   # incomplete last row: never written
    return names, cells, numlike


def csv_case(rng, tier):
    allow = rng.random() < 0.15
    names, cells, numlike = gen_table(rng, tier, allow)
    args = "%d %s%s" % (len(names), " ".join(hexs(n) for n in names), "".join(" " + c for c in cells))
    return ["tabw " + args, ("tabrtx " if numlike else "tabrt ") + args]


def csv_array_case(rng, tier):
    """rows handed to operator<< as array Vars: a fresh array per row, the SAME array Var object again (`=`),
    arrays shorter or longer than the column count followed by single cells, mixed with cell-by-cell rows"""
    names, cells, _ = gen_table(rng, tier, False)
    n = len(names)
    cells = cells[:len(cells) - len(cells) % n]
    rows = [cells[i:i + n] for i in range(0, len(cells), n)][:12]
    if not rows:
        rows = [["n:1"] * n]
    items = []
    have_array = False
    for r in rows:
        q = rng.random()
        if q < 0.45:
            items += ["["] + r + ["]"]
            have_array = True
            while rng.random() < 0.4:
                items.append("=")            # the caller sends the same array once more
        elif q < 0.6 and have_array:
            items.append("=")
        elif q < 0.75 and n > 1:
            k = rng.randrange(0, n)          # a short array, the rest of the row cell by cell
            items += ["["] + r[:k] + ["]"] + r[k:]
            have_array = True
            if rng.random() < 0.3:
                items.append("=")
        elif q < 0.8:
            items += ["["] + r + r[:1] + ["]"]   # too long: never written, replaced by the next array
        elif q < 0.85 and n > 1:
            items += ["["] + r[:rng.randrange(1, n)] + ["]", "s:0a"]   # the "\n" cell writes the short row as it is
            have_array = True
            have_array = True
        else:
            items += r
    args = "%d %s %s" % (n, " ".join(hexs(x) for x in names), " ".join(items))
    return ["tabw " + args, "tabrt " + args]


def csv_sep_case(rng, tier):
    """setSeparator / setDecimal before writing: ';' with '.', ';' with ',' (the pair the reader assumes), tab with '.'"""
    sep, dec = rng.choice([(59, 46), (59, 46), (59, 44), (9, 46)])
    # 1 case in 8 keeps strings that spell a number with '.' or ',' ("1,5", ",0", "1,"): they come back as numbers under the
    # reader's documented decimal inference (outside_findings.txt); model and library must still agree, the python oracle abstains
    allow_numlike = rng.random() < 0.125
    names, cells, _ = gen_table(rng, tier, False)
    while len(names) < 2:       # one-column files with a non-default separator: outside (outside_findings.txt), nothing to sniff
        names, cells, _ = gen_table(rng, tier, False)
    n = len(names)
    fixed = []
    for c in cells:
        if c.startswith("s:"):
            s = unhex(c[2:])
            # a string that spells a number with either decimal symbol comes back as a number: excluded as for ','
            sd = s.replace(b",", b".")
            if b"\t" in s:
                c = "s:" + hexs(b"x" + s.replace(b"\t", b" "))
            elif NUMLIKE.match(sd) and not (allow_numlike and s.count(b",") + s.count(b".") <= 1 and numlike_in_range(sd)):
                c = "s:" + hexs(b"x" + s)
        fixed.append(c)
    cells = fixed
    if allow_numlike:
        for j in range(len(cells)):
            if cells[j].startswith("s:") and rng.random() < 0.3:
                cells[j] = "s:" + hexs(rng.choice([b"1,5", b",0", b"1,", b"-2,5e3", b"1.5", b"7"]))
    if rng.random() < 0.3 and n > 0:
        rows = [cells[i:i + n] for i in range(0, len(cells) - len(cells) % n, n)][:10]
        cells = []
        for r in rows:
            cells += ["["] + r + ["]"]
    args = "%d %d %d %s%s" % (sep, dec, n, " ".join(hexs(x) for x in names), "".join(" " + c for c in cells))
    return ["tabws " + args, "tabrts " + args]


def csv_typed_case(rng, tier):
    """readAs(types): columns typed n / s / i / h, a character that matches no case (the cell is dropped), fewer type characters
    than columns (the rest is inferred); 's' columns hold ANY string, number look-alikes included; every separator setting"""
    sep, dec = rng.choice([(44, 46), (44, 46), (59, 46), (59, 44), (9, 46)])
    ncols = rng.randrange(2, 7)
    names = rng.sample(COLS, ncols)
    ntyped = ncols if rng.random() < 0.7 else rng.randrange(0, ncols)
    types = "".join(rng.choice("nnsssiixhh" if rng.random() < 0.9 else "nsiqh ") for _ in range(ntyped))
    if rng.random() < 0.05:
        types += "sn"           # more type characters than columns
    nrows = rng.choice([0, 1, 2, 3, 5, 8])
    cells = []
    for _ in range(nrows):
        for j in range(ncols):
            ty = types[j] if j < len(types) else "?"
            r = rng.random()
            if ty == "n":
                if r < 0.8:
                    c = "n:" + rnumber(rng).decode()
                elif r < 0.9:
                    c = "s:" + hexs(rng.choice([b"1.5", b"7", b"-2.5e3", b"0.25", b"12", b"1e5"]))
                else:
                    c = "s:-"
            elif ty == "i":
                if r < 0.5:
                    c = "n:" + str(rng.randrange(-100000, 100000))
                elif r < 0.8:
                    c = "s:" + hexs(rng.choice([b"0", b"-0", b"+7", b"2147483647", b"-2147483648", b"2147483648", b"4294967296", b"99999999999",
                                               b"-99999999999", b"12abc", b"", b"-", b"+", b" 5", b"1.9", b"007"]))
                else:
                    c = "s:" + hexs(str(rng.randrange(-2 ** 33, 2 ** 33)).encode())
            elif ty == "h":
                # strtoul(.,16): hex texts of both cases, 0x prefix, sign, blanks, 32- and 64-bit overflow, junk tails
                if r < 0.5:
                    v = rng.choice([rng.randrange(0, 256), rng.randrange(0, 2 ** 31), rng.randrange(2 ** 31, 2 ** 32), rng.randrange(0, 2 ** 32)])
                    x = ("%x" if rng.random() < 0.5 else "%X") % v
                    if rng.random() < 0.3:
                        x = rng.choice(["0x", "0X"]) + x
                    c = "s:" + hexs(x.encode())
                elif r < 0.6:
                    c = "n:" + str(rng.randrange(0, 100000))
                elif r < 0.85:
                    c = "s:" + hexs(rng.choice([b"", b"0", b"0x", b"0xg", b"x1", b"-1", b"-0", b"+ff", b" 1f", b"  -0x10", b"ffffffff", b"100000000",
                                               b"7fffffff", b"80000000", b"ffffffffffffffff", b"10000000000000000", b"-ffffffffffffffff",
                                               b"-10000000000000000", b"123456789abcdef01", b"1fg", b"0x0x1", b"-", b"+", b"+-1", b"1 2", b"g", b"00ff", b"0xFFFFFFFF1"]))
                else:
                    x = ("%x" % rng.randrange(0, 2 ** rng.choice([8, 33, 64, 70]))).encode()
                    c = "s:" + hexs(rng.choice([b"", b"-", b"+", b" ", b"0x", b"-0X"]) + x + rng.choice([b"", b"", b"z", b" ", b"x"]))
            elif ty == "?":
                if r < 0.5:
                    c = "n:" + rnumber(rng).decode()
                else:
                    x = rstring(rng, False)
                    if NUMLIKE.match(x.replace(b",", b".")):
                        x = b"x" + x
                    c = "s:" + hexs(x)
            else:       # 's' and dropped columns: anything at all that a line can hold
                if r < 0.35:
                    c = "s:" + hexs(rng.choice([b"1", b"-1", b"1.5", b"1,5", b"1e5", b"007", b"123456789012345678901", b"-0", b".5", b"5.", b"1e+300"]))
                elif r < 0.45:
                    c = "n:" + rnumber(rng).decode()
                else:
                    c = "s:" + hexs(rstring(rng, True))
            if c.startswith("s:") and c != "s:-" and b"\t" in unhex(c[2:]):
                c = "s:" + hexs(unhex(c[2:]).replace(b"\t", b" "))
            cells.append(c)
    args = "%s %d %d %d %s%s" % (types.replace(" ", "_") or "-", sep, dec, ncols, " ".join(hexs(x) for x in names), "".join(" " + c for c in cells))
    return ["tabrtt " + args]


CSVCH = b"ab1,;\"\t .-e\n\r5"


def csvtext_case(rng, tier):
    r = rng.random()
    if r < 0.5:
        n = rng.randrange(0, 40)
        t = bytes(rng.choice(CSVCH) for _ in range(n))
    else:
        # structured: header or not, separator ; or , or tab, quoted cells, decimal comma
        sep = rng.choice([b",", b";", b"\t"])
        rows = []
        for _ in range(rng.randrange(0, 5)):
            row = []
            for _ in range(rng.randrange(1, 5)):
                q = rng.random()
                if q < 0.3:
                    row.append(rng.choice([b"1", b"-2", b"1,5", b"1.5", b"2e3", b"-", b".5", b"5.", b"1e-3", b"12e", b"-1,5e+2"]))
                elif q < 0.5:
                    row.append(b'"' + bytes(rng.choice(b'ab,;" ') for _ in range(rng.randrange(0, 6))).replace(b'"', b'""') + b'"')
                else:
                    row.append(bytes(rng.choice(b"abc xyz_") for _ in range(rng.randrange(0, 5))))
            rows.append(sep.join(row))
        eol = rng.choice([b"\n", b"\r\n"])
        t = eol.join(rows) + (eol if rng.random() < 0.7 else b"")
        if rng.random() < 0.1:
            t = b"\xef\xbb\xbf" + t
    if re.search(rb"[eE][+-]?\d{3,}|[\d.,]{16,}", t):
        t = b"a,b\n1,2\n"       # exponents / mantissas outside the range the double arithmetic of myatof is compared on
    ops = ["tabread " + hexs(t)]
    if rng.random() < 0.4:
        # the same arbitrary text read with readAs: 's', 'i' (myatoi on anything) and dropped columns only ('n' would run
        # myatof on arbitrary bytes, whose double arithmetic the model does not follow outside number texts);
        # fewer or more type characters than the rows have cells
        types = "".join(rng.choice("ssiixh_") for _ in range(rng.randrange(0, 6)))
        ops.append("tabreadt %s %s" % (types or "-", hexs(t)))
    return ops


def atof_case(rng, tier):
    out = []
    for _ in range(20):
        lex = rnumber(rng)
        if rng.random() < 0.2:
            lex = lex.replace(b"e", b"E")
        if rng.random() < 0.1 and b"e+" in lex:
            lex = lex.replace(b"e+", b"e")
        out.append("atof " + hexs(lex))
    return out


def gen(rng, tier):
    k = 1 if tier == "quick" else 12
    cases = []
    for _ in range(700 * k):
        cases.append(ini_history(rng, tier, False))
    for _ in range(500 * k):
        cases.append(ini_composite(rng, tier, False))
    for _ in range(250 * k):
        cases.append(ini_history(rng, tier, True))
    for _ in range(150 * k):
        cases.append(ini_composite(rng, tier, True))
    for _ in range(12 * k):
        # a path that opens but cannot be read (a directory): the constructor must return, sets stay in memory
        sets = gen_sets(rng, [], rng.randrange(0, 4), False)
        cases.append(["inidir %d" % (1 if rng.random() < 0.4 else 0) + "".join(" %s %s" % (hexs(n), hexs(v)) for n, v in sets)])
    for _ in range(500 * k):
        cases.append(csv_case(rng, tier))
    for _ in range(250 * k):
        cases.append(csv_array_case(rng, tier))
    for _ in range(250 * k):
        cases.append(csv_sep_case(rng, tier))
    for _ in range(250 * k):
        cases.append(csv_typed_case(rng, tier))
    for _ in range(400 * k):
        cases.append(csvtext_case(rng, tier))
    for _ in range(60 * k):
        cases.append(atof_case(rng, tier))
    # every decimal exponent -323..300, 15 digits (once in the quick tier, 8 times in the thorough tier)
    for rep in range(1 if tier == "quick" else 8):
        batch = []
        for e in range(-323, 301):
            x = rng.uniform(1, 10) * 10.0 ** e
            if x != 0:
                batch.append("atof " + hexs(fmt15(x)))
        cases.append(batch)
    rng.shuffle(cases)
    return cases


def nontrivial(case):
    for l in case:
        t = l.split()
        if t[0] in ("set", "put") or (t[0] == "inirt" and len(t) > 3 and t[2] not in ("-", "none")):
            return True
        if t[0] in ("tabws", "tabrts", "inidir", "tabrtt", "tabreadt"):
            return True
        if t[0] in ("tabw", "tabrt", "tabrtx") and any(c not in ("s:-", "[", "]", "=") for c in t[2 + int(t[1]):]):
            return True
        if t[0] in ("tabread", "atof") and t[1] != "-":
            return True
    return False


def distribution(cases):
    d = {"ops_by_kind": {}, "ini_texts": {"crlf": 0, "lf": 0, "no_final_newline": 0, "final_newline": 0, "missing_file": 0,
                                          "with_line_over_254_bytes": 0, "leading_blank_lines": 0, "sectionless_keys": 0},
         "ini_sets_per_case": {}, "ini_wild_cases": 0, "tables": {"rows": {}, "cols": {}, "cells_num": 0, "cells_str": 0,
                                                                    "cells_str_quoted": 0, "cells_str_empty": 0, "numlike_string_tables": 0}}
    for c in cases:
        nsets = 0
        for l in c:
            t = l.split()
            op = t[0]
            d["ops_by_kind"][op] = d["ops_by_kind"].get(op, 0) + 1
            text = None
            if op == "load":
                text = t[1]
            elif op == "inirt":
                text = t[2]
                nsets += (len(t) - 3) // 2
                if t[1].endswith("x"):
                    d["ini_wild_cases"] += 1
            elif op in ("set", "put"):
                nsets += 1
            if text is not None:
                it = d["ini_texts"]
                if text == "none":
                    it["missing_file"] += 1
                else:
                    b = unhex(text)
                    it["crlf" if b"\r\n" in b else "lf"] += 1
                    it["final_newline" if b.endswith(b"\n") else "no_final_newline"] += 1
                    ls = b.split(b"\n")
                    if any(len(x) > 254 for x in ls):
                        it["with_line_over_254_bytes"] += 1
                    if b.startswith(b"\n") or b.startswith(b"\r\n"):
                        it["leading_blank_lines"] += 1
                    for x in ls:
                        if x.startswith(b"["):
                            break
                        if b"=" in x and not x.lstrip().startswith((b"#", b";")):
                            it["sectionless_keys"] += 1
                            break
            if op == "tabrts":
                key = "sep%s_dec%s" % (t[1], t[2])
                d["tables"].setdefault("separator_configs", {})
                d["tables"]["separator_configs"][key] = d["tables"]["separator_configs"].get(key, 0) + 1
            if op in ("tabrt", "tabrtx"):
                n = int(t[1])
                cells = [x for x in t[2 + n:] if x not in ("[", "]", "=")]
                tb = d["tables"]
                if "[" in t:
                    tb["with_array_rows"] = tb.get("with_array_rows", 0) + 1
                    tb["array_resent"] = tb.get("array_resent", 0) + t.count("=")
                tb["cols"][n] = tb["cols"].get(n, 0) + 1
                r = len(cells) // n
                tb["rows"][r] = tb["rows"].get(r, 0) + 1
                if op == "tabrtx":
                    tb["numlike_string_tables"] += 1
                for x in cells:
                    if x.startswith("n:"):
                        tb["cells_num"] += 1
                    else:
                        tb["cells_str"] += 1
                        s = unhex(x[2:])
                        if not s:
                            tb["cells_str_empty"] += 1
                        if b'"' in s or b"," in s:
                            tb["cells_str_quoted"] += 1
        if any(l.startswith(("load", "inirt")) for l in c):
            key = str(nsets) if nsets < 20 else "20+"
            d["ini_sets_per_case"][key] = d["ini_sets_per_case"].get(key, 0) + 1
    return d


# ---------------------------------------------------------------- independent reference

def py_ini_parse(text):
    """INI semantics written from the format, not from the code: sections group keys, later duplicates win,
    blanks around key and value are not significant, '#'/';' lines are comments.  Returns (relation, sections in order)"""
    rel = {}
    order = []
    cur = NOSEC
    for line in text.split(b"\n"):
        if line.endswith(b"\r"):
            line = line[:-1]
        s = line.strip(b" \t\r")
        if not s or s[:1] in (b"#", b";"):
            continue
        if s[:1] == b"[" and s[-1:] == b"]":
            cur = s[1:-1]
            if cur not in order:
                order.append(cur)
            continue
        if b"=" not in s:
            return None
        k, _, v = s.partition(b"=")
        rel[(cur, k.strip(b" \t"))] = v.strip(b" \t\r")
    return rel, order


def ini_expected(file_arg, pairs):
    if file_arg == "none":
        rel, order = {}, []
    else:
        r = py_ini_parse(unhex(file_arg))
        if r is None:
            return None
        rel, order = r
    # plain names address the section-less group when it has keys (or when there is no section), else the first section
    has_global = any(s == NOSEC for s, _ in rel)
    current = NOSEC if (has_global or not order) else order[0]
    for name, val in pairs:
        if b"/" in name:
            sec, _, key = name.partition(b"/")
        else:
            sec, key = current, name
        rel[(sec, key)] = val
    vals = {}
    for (s, k), v in rel.items():
        if v != b"":
            vals[s + b"/" + k] = v
    return "vals=" + ",".join("%s=%s" % (hexs(k), hexs(vals[k])) for k in sorted(vals))


def table_expected(t):
    """rows that get written, from the documented behaviour: an item is appended to the current row, an array IS the current
    row, the row is written when it has as many cells as there are columns; and the lengths the caller's arrays must still have"""
    n = int(t[1])
    names = [unhex(x) for x in t[2:2 + n]]
    if "s:0a" in t:
        raise ValueError("the flush cell is left to the model")
    rows, pending, cur, last, lens = [], [], None, None, []
    def flush():
        nonlocal pending
        if len(pending) == n:
            rows.append(pending)
            pending = []
    for x in t[2 + n:]:
        if x == "[":
            cur = []
        elif x == "]":
            last = cur
            lens.append(len(cur))
            cur = None
            pending = list(last)
            flush()
        elif x == "=":
            pending = list(last)
            flush()
        elif cur is not None:
            cur.append(x)
        else:
            pending = pending + [x]
            flush()
    return names, rows, lens


def reference(line):
    t = line.split()
    op = t[0]
    try:
        if op == "inirt" and t[1] in ("w", "c"):
            pairs = [(unhex(t[i]), unhex(t[i + 1])) for i in range(3, len(t) - 1, 2)]
            return ini_expected(t[2], pairs)
        if op == "tabrtt":
            # readAs: fully typed tables only; an 's' column returns the text written, whatever it spells
            types, sep, dec, n = ("" if t[1] == "-" else t[1]), int(t[2]), int(t[3]), int(t[4])
            names, cells = t[5:5 + n], t[5 + n:]
            if n < 2 or any(c in "[]=" for c in cells):
                return None
            # fewer type characters than columns: the rest is inferred ('?': numbers stay numbers, the generated strings do not
            # spell numbers); more: ignored (csv_typed_row_prefix)
            types = (types + "?" * n)[:n]
            out = []
            for i in range(0, len(cells) - len(cells) % n, n):
                cs = []
                for ty, c in zip(types, cells[i:i + n]):
                    if ty == "s":
                        if c.startswith("s:"):
                            cs.append("s" + c[2:])
                        else:
                            cs.append("s" + hexs(c[2:].replace(".", chr(dec)).encode()))
                    elif ty == "n":
                        if not c.startswith("n:"):
                            return None
                        cs.append("n" + hexs(fmt15(float(c[2:]))))
                    elif ty == "i":
                        if not (c.startswith("n:") and re.match(r"^-?\d+$", c[2:]) and abs(int(c[2:])) < 2 ** 31):
                            return None
                        cs.append("i%d" % int(c[2:]))
                    elif ty == "?":
                        if c.startswith("n:"):
                            cs.append("n" + hexs(fmt15(float(c[2:]))))
                        else:
                            x = unhex(c[2:])
                            if NUMLIKE.match(x.replace(b",", b".")) or x[:1] == b"\xef":
                                return None
                            cs.append("s" + c[2:])
                    elif ty == "h":
                        # plain hex texts (optional 0x) below 2^32: Var(unsigned) is INT below 2^31, else a double
                        x = unhex(c[2:]).decode("latin1") if c.startswith("s:") else c[2:]
                        if not re.match(r"^(0[xX])?[0-9a-fA-F]{1,8}$", x):
                            return None
                        v = int(x, 16)
                        cs.append("i%d" % v if v < 2 ** 31 else "n" + hexs(fmt15(float(v))))
                out.append(",".join(cs))
            return "cols=%s rows=%s" % (",".join(names), ";".join(out))
        sep, dec = 44, 46
        if op in ("tabws", "tabrts"):
            sep, dec = int(t[1]), int(t[2])
            t = [t[0]] + t[3:]
            if int(t[1]) == 1:
                return None      # a one-column file contains no separator the reader could recognise
            if any(x.startswith("s:") and NUMLIKE.match(unhex(x[2:]).replace(b",", b".")) for x in t[2 + int(t[1]):]):
                return None      # a string that spells a number under either decimal symbol: format ambiguity
            op = "tabw" if op == "tabws" else "tabrt"
        if op == "tabrt":
            names, rows, _ = table_expected(t)
            out = []
            for r in rows:
                cs = []
                for c in r:
                    if c.startswith("n:"):
                        cs.append("n" + hexs(fmt15(float(c[2:]))))
                    else:
                        cs.append("s" + c[2:])
                out.append(",".join(cs))
            return "cols=%s rows=%s" % (",".join(hexs(x) for x in names), ";".join(out))
        if op == "tabw":
            names, rows, lens = table_expected(t)
            n = len(names)
            if n == 1 and any(c == "s:-" for r in rows for c in r):
                return None      # python writes a lone empty field as "" (quoted); both spellings are valid CSV
            buf = io.StringIO()
            w = csv.writer(buf, lineterminator="\n", quoting=csv.QUOTE_MINIMAL, delimiter=chr(sep))
            w.writerow([x.decode("latin-1") for x in names])
            for r in rows:
                w.writerow([c[2:].replace(".", chr(dec)) if c.startswith("n:") else unhex(c[2:]).decode("latin-1") for c in r])
            s = buf.getvalue().encode("latin-1")
            if not rows:
                s = s[:-1]   # asl ends the header line when the first row is written
            return hexs(s) + (" lens=" + ",".join(str(x) for x in lens) if lens else "")
        if op == "atof":
            lex = unhex(t[1])
            return hexs(fmt15(float(lex)))
    except Exception:
        return None
    return None


REFERENCE_NAME = "python: INI dictionary semantics + set sequence; identity on tables (typed columns: the text / float / int of the cell written); csv.writer; float()/%.15g"

KNOWN = []

TECHNIQUE = ("Lean 4 theorems (induction over lines / bytes, invariants over set/write histories) about executable models of the "
             "IniFile reader/writer and the TabularDataFile row writer/parser + differential correspondence check against the real library")
LEVEL_TEXT = ("Proved in Lean 4 about the model that the driver runs against the library on every check: (1) ini_read_spec: for every "
              "document of the INI grammar (sections, key = value with optional blanks, #/; comments, blank lines), LF or CRLF, with or "
              "without final line end, a fresh IniFile holds exactly the document's key/value relation; (2) ini_persist: for every such "
              "document and every sequence (any length) of set(\"section/key\", value) calls on existing keys, new keys, new sections and "
              "the section-less group, interleaved with any number of explicit write() calls and ended by the destructor's write, a "
              "fresh IniFile on the resulting file returns for every section/key the last value set, else the document's value, and "
              "the resulting file is again a document of the grammar with that meaning; ini_sessions: for any number of sessions on one path "
              "(reopen what the previous one left, sets and writes, destructor) and EVERY prefix of that history, the file read back equals the "
              "abstract map (last set of each entry, else the document's value) of the sets made so far (IniFile has no delete operation); "
              "ini_name_roundtrip / ini_name_necessary: the decidable predicate NameOk(section, key) (section without ']' '/' LF; key non-empty, "
              "without '=' '/' LF, first byte an ASCII byte above '/' other than ';' '[', last byte not blank; everything else allowed: blanks, "
              "'#', ';', '[', '=' in sections, empty section) is sufficient for set / destructor / fresh read to return the value and leave "
              "every other entry alone, and each clause is necessary: 15 witness names, one per clause, do not come back (same histories "
              "replayed on the library from corpus/C18/names.ops); "
              "(3) ini_write_in_bounds: for any NUL-free file bytes or a missing file and any set / operator[]= / write history with any NUL-free "
              "byte strings, write never reads outside _lines; (4) ini_order: for any object state the written text contains all lines of "
              "_lines in order, non-entry lines byte for byte, entry lines respelled key=value with the same key, new lines only inserted; "
              "ini_order_file: end to end for every document and session as in (2), the file left is either the old text or consists of "
              "the old file's lines (up to empty lines at the very end) in their order with entries respelled and new lines inserted, in "
              "particular all comment and section-header lines byte for byte in the same relative order; "
              "(5) csv_row_roundtrip: for every separator and every non-empty row of strings of any bytes other than NUL, LF, CR "
              "(separators, quotes, blanks, empty) and number texts, parseRow(writeRow r) = r cell for cell; csv_table_roundtrip: for every list of identifier "
              "column names and every table of such cells (strings without line breaks that do not spell a number, number texts) the "
              "file written through columns()/operator<< cell by cell or row by row as array Vars and read by a fresh TabularDataFile (header detection, separator sniffing, "
              "data() loop, BOM test, type inference) gives back the columns and the rows cell for cell, numbers as myatof of the text "
              "written; csv_items_roundtrip: ANY sequence of << items (cells and array rows in any mix, arrays shorter or longer than the column "
              "count) with such cells is read back as exactly the rows the documented row-filling rule yields; csv_semicolon_row: after setSeparator(';') a row of such cells is parsed back cell for cell under the reader's setting for "
              "';' files (decimal comma guessed), numbers written with '.' being numbers again (fix cb50e4a); csv_typed_row: rows read with "
              "readAs(types), for every separator and the writer's decimal symbol '.' or equal to the reader's: an 's' column returns ANY string byte "
              "for byte (also strings that spell numbers), an 'n' column myatof of the number text (decimal comma written and read back), an "
              "'i' column the integer exactly for [-]digits below 2^31, an 'h' column (String::hexToInt = (unsigned) strtoul(text, 0, 16), then Var(unsigned)) the value of every hex "
              "number text ([0x|0X] + hex digits of either case, below 2^32) as an int below 2^31 and as the exact double above (csv_typed_hex; the same inside csv_typed_row and "
              "csv_table_roundtrip_typed through Fits/typedSpec; signs, blanks, junk tails and 32/64-bit overflow of strtoul are in the model Csv.hexU32 and compared by K only), "
              "a column whose character matches no case is dropped; csv_header_sniff: "
              "readHeader recognises ',' ';' tab in every header of identifier names (two columns at least unless ','), decimal ',' for ';' files, whatever follows; "
              "csv_table_roundtrip_typed / csv_table_roundtrip_semicolon / csv_table_roundtrip_decimal_comma / csv_table_roundtrip_tab: WHOLE tables for each of the three separators, written "
              "cell by cell after setSeparator / setDecimal and read by a fresh TabularDataFile with readAs (any types, decimal comma included) or without "
              "(';' with decimal point kept, ';' with setDecimal(','), tab), come back cell for cell; csv_one_column_needs_default_separator: the two-column condition is needed "
              "(witness replayed from corpus/C18/sep.ops); csv_array_rows_any_separator: for every separator and decimal symbol rows handed over as "
              "array Vars write byte for byte the file written cell by cell; (6) csv_number_exact_Q: every number text "
              "[-]digits[.digits][(e|E)[+|-]digits] with at most 18 mantissa digits and 9 exponent digits is accepted by myisnumber, keeps "
              "the code's long long y1 below 2^63 and its int exponent within +-2^31 (so the model's integers are the machine's), and the "
              "rational y1*10^exp held by myatof before its floating-point multiplication equals the number spelled. All texts, keys, "
              "values, names and cells in these theorems are NUL-free (the code is C-string based). The models are tied to src/IniFile.cpp and "
              "src/TabularDataFile.cpp by the correspondence check (INI histories incl. texts outside the grammar, whole tables through "
              "the real files, arbitrary CSV texts, myatof on every decimal exponent) and by independent python oracles.")
LEVEL_NOTE = ("NO THEOREM covers the '15 significant digits' clause itself: that double(y1)*pow(10.0,exp) (two-step scaling below 1e-300 "
              "since fix 7b5df72) printed with %.15g gives the written digits is floating point, validated by the correspondence check only, "
              "carried by the listed libc/IEEE "
              "assumptions and compared on every number of every run (the model prints the exact decimal with its own %.15g formatter "
              "fmt15, which has no theorem); Var::toString's %.15g of the double handed in; CSV files not written by TabularDataFile "
              "(other separators, decimal comma, no header, missing final line end: the last row is then not returned); IniFile::values(), "
              "sectionNames(), plain names without '/', operator[]= and reopen are in the model and in K but the persist theorem is stated "
              "for set(\"section/key\") and const operator[]; names outside NameOk are proved NOT to round-trip only for the 15 witnesses of "
              "ini_name_necessary (one per clause), not for every such name; other names outside NameOk and values with outer blanks are K-only. An IniFile on a path that opens but cannot be read (a directory, fix 4bfeeba) is MODELLED AS the empty file "
              "(ini_unreadable_path is definitional: rfl plus an instance of ini_write_in_bounds); that the constructor returns and what it then "
              "holds is K-checked by the op inidir with a watchdog, nothing more. That operator<< COPIES an array Var instead of sharing and "
              "clearing the caller's array (fix 23ed28f) is K-only: the model takes arrays by value, the theorems hold for the unrepaired code "
              "too, the check sees the defect through the caller's array lengths (lens=) and the missing rows. The \"\\n\" cell that flushes a "
              "short row is in the model and in K but excluded from the theorems (CellWF). The former known finding csv-tiny-number (|x| < ~1e-293 read back wrong) is repaired (7b5df72) and its "
              "witness runs from the corpus; tables written with a non-default separator are proved at the table level for cell-by-cell writing and, "
              "through csv_array_rows_any_separator (array rows write the same bytes, every separator and decimal symbol), for array rows, the ';' table written with setDecimal(',') included "
              "(csv_table_roundtrip_decimal_comma, untyped; csv_table_roundtrip_typed, typed); one-column tables with a non-default separator are outside (no separator in the file to sniff, "
              "csv_one_column_needs_default_separator); rows of the typed / separator table theorems must not start with byte 0xEF (BOM test); number texts with more than 18 mantissa or 9 exponent digits overflow in the C code and are "
              "outside theorem and generator. Not modelled: IniFile::section()/arraysize()/array() (deprecated), write(otherName); TabularDataFile ARFF output, "
              "flushEvery; readAs() with fewer or more type characters "
              "than columns: csv_typed_row_prefix (typed cells as in csv_typed_row, the cells beyond the type string inferred and back as written for the decimal settings ./. , . read in a ';' file, ,/,; "
              "surplus type characters ignored) at row level, K op tabrtt with python oracle; the whole-TABLE typed theorems still take one type character per column; useQuotes() has no effect in the library. Trusted: Lean kernel, harness/c18.cpp, the generator; libc fgets/feof, strtod, snprintf %.15g, pow as listed.")
