"""C19 — Date <-> UTC calendar fields: plugin for tools/check.py

G: `translate` regenerates lean/Gen/DateGen.lean from /repo/src/Date.cpp on every run
   (yearFromTime via the clang-14 JSON AST; the daysInYear / timeFromYearAsDays macros via the same AST
   walker on a two-line wrapper around the macro text; month_days, weekday/month name tables by regex).
K: harness/c19.cpp vs lean/Driver/C19.lean on the ops generated below.
"""
import json
import os
import re
import subprocess
import tempfile

from lib import cparse
from lib.core import hexs, unhex
from lib.engine import TranslateError

ID = "C19"
PROPS_MODULE = "AslProps.C19"
DRIVER = "c19"

# ====================================================================== G: translator

CLANG = "clang++-14"


def _clang_ast(path, filt, incdirs=()):
    cmd = [CLANG, "-std=gnu++11", "-fsyntax-only", "-w"]
    for d in incdirs:
        cmd += ["-I", d]
    cmd += ["-Xclang", "-ast-dump=json", "-Xclang", "-ast-dump-filter=" + filt, path]
    try:
        p = subprocess.run(cmd, stdout=subprocess.PIPE, stderr=subprocess.PIPE, timeout=120)
    except (OSError, subprocess.TimeoutExpired) as e:
        raise TranslateError("cannot run %s: %s" % (CLANG, e))
    if p.returncode != 0:
        raise TranslateError("clang failed on %s: %s" % (path, p.stderr.decode(errors="replace")[-500:]))
    txt = p.stdout.decode(errors="replace")
    dec = json.JSONDecoder()
    docs = []
    i = 0
    while i < len(txt):
        while i < len(txt) and txt[i].isspace():
            i += 1
        if i >= len(txt):
            break
        try:
            o, i = dec.raw_decode(txt, i)
        except ValueError as e:
            raise TranslateError("clang AST is not JSON: %s" % e)
        docs.append(o)
    return docs


INT_TYPES = {"int", "const int"}


class _Tr:
    """loop-free C function over int -> Lean `Int` expression (state-passing lets, continuation duplicated at `if`).
    Anything outside the recognised subset raises TranslateError (never a default)."""

    def __init__(self, day_param=None, base="f"):
        self.day_param = day_param    # name of the `double t` parameter whose only use is (int)floor(t*(1/86400.0))
        self.day_uses = 0
        self.base = base
        self.consts = []              # (name, lean rhs) of `const int` locals, re-emitted in every join definition
        self.defs = []                # finished join definitions (inner ones first)
        self.njoin = 0

    def always_returns(self, n):
        k = n.get("kind")
        if k == "ReturnStmt":
            return True
        if k == "CompoundStmt":
            inner = n.get("inner", [])
            return bool(inner) and self.always_returns(inner[-1])
        if k == "IfStmt":
            inner = n["inner"]
            return len(inner) == 3 and self.always_returns(inner[1]) and self.always_returns(inner[2])
        return False

    def refs_and_decls(self, stmts):
        refs, decls = [], []
        def walk(n):
            if isinstance(n, tuple):
                return
            if n.get("kind") == "DeclRefExpr" and n.get("referencedDecl", {}).get("kind") in ("VarDecl", "ParmVarDecl"):
                nm = n["referencedDecl"]["name"]
                if nm not in refs:
                    refs.append(nm)
            if n.get("kind") == "VarDecl":
                decls.append(n.get("name"))
            for c in n.get("inner", []):
                walk(c)
        for s in stmts:
            walk(s)
        return refs, decls

    def make_join(self, rest, env):
        """the continuation `rest` as a separate definition over the mutable variables it reads"""
        self.njoin += 1
        name = "%s_j%d" % (self.base, self.njoin)
        refs, decls = self.refs_and_decls(rest)
        cn = [c for c, _ in self.consts]
        params = [r for r in refs if r in env and r not in cn]
        for r in refs:
            if r in decls and r in env:
                raise TranslateError("Date.cpp translator: variable %s is re-declared in a continuation that also reads the outer one" % r)
            if r not in env and r not in decls:
                raise TranslateError("Date.cpp translator: continuation reads unknown variable " + r)
        env2 = {c: c for c in cn}
        env2.update({p: p for p in params})
        ver2 = {p: 0 for p in list(cn) + params}
        # scope markers of the enclosing blocks are irrelevant inside the new definition
        body = self.S([r for r in rest if not isinstance(r, tuple)], env2, ver2, 1)
        txt = "def %s %s: Int :=\n" % (name, "".join("(%s : Int) " % p for p in params))
        for c, rhs in self.consts:
            txt += "  let %s : Int := %s\n" % (c, rhs)
        self.defs.append(txt + body)
        return name, params

    # ---------- helpers
    @staticmethod
    def ty(n):
        return n.get("type", {}).get("qualType", "")

    def err(self, n, what):
        loc = n.get("range", {}).get("begin", {})
        raise TranslateError("Date.cpp translator: %s (kind=%s line=%s)" % (what, n.get("kind"), loc.get("line", loc.get("spellingLoc", {}).get("line", "?"))))

    @staticmethod
    def unparen(n):
        while n.get("kind") == "ParenExpr" or (n.get("kind") == "ImplicitCastExpr" and n.get("castKind") == "NoOp"):
            n = n["inner"][0]
        return n

    # ---------- expressions of C type int
    def E(self, n, env):
        k = n.get("kind")
        if k == "IntegerLiteral":
            if self.ty(n) != "int":
                self.err(n, "integer literal of type " + self.ty(n))
            return n["value"]
        if k == "ParenExpr":
            return self.E(n["inner"][0], env)
        if k == "ImplicitCastExpr":
            ck = n.get("castKind")
            if ck in ("LValueToRValue", "NoOp"):
                return self.E(n["inner"][0], env)
            if ck == "FloatingToIntegral":
                return self.day_expr(n["inner"][0], env)
            self.err(n, "implicit cast " + str(ck) + " in an int expression")
        if k == "CStyleCastExpr":
            if self.ty(n) != "int":
                self.err(n, "cast to " + self.ty(n))
            return self.E(n["inner"][0], env)
        if k == "DeclRefExpr":
            name = n["referencedDecl"]["name"]
            if self.ty(n) not in INT_TYPES:
                self.err(n, "reference to %s of type %s" % (name, self.ty(n)))
            if name not in env:
                self.err(n, "reference to unknown variable " + name)
            return env[name]
        if k == "BinaryOperator":
            op = n["opcode"]
            if self.ty(n) != "int":
                self.err(n, "operator %s of type %s" % (op, self.ty(n)))
            a = self.E(n["inner"][0], env)
            b = self.E(n["inner"][1], env)
            if op in ("+", "-", "*"):
                return "(%s %s %s)" % (a, op, b)
            if op == "/":
                return "(Int.tdiv %s %s)" % (a, b)
            if op == "%":
                return "(Int.tmod %s %s)" % (a, b)
            self.err(n, "int operator " + op)
        if k == "UnaryOperator" and n.get("opcode") == "-" and self.ty(n) == "int":
            return "(- %s)" % self.E(n["inner"][0], env)
        if k == "ConditionalOperator":
            if self.ty(n) != "int":
                self.err(n, "?: of type " + self.ty(n))
            c = self.B(n["inner"][0], env)
            return "(if %s then %s else %s)" % (c, self.E(n["inner"][1], env), self.E(n["inner"][2], env))
        self.err(n, "unsupported int expression")

    def day_expr(self, n, env):
        """exactly floor(t * (1 / 86400.0)) -> the integer day parameter"""
        if self.day_param is None:
            self.err(n, "floating-point value converted to int")
        ok = False
        if n.get("kind") == "CallExpr" and len(n["inner"]) == 2 and self.callee(n) == "floor":
            m = self.unparen(n["inner"][1])
            if m.get("kind") == "BinaryOperator" and m.get("opcode") == "*":
                l = self.unparen(m["inner"][0])
                r = self.unparen(m["inner"][1])
                if l.get("kind") == "ImplicitCastExpr" and l.get("castKind") == "LValueToRValue":
                    l = l["inner"][0]
                if (l.get("kind") == "DeclRefExpr" and l["referencedDecl"]["name"] == self.day_param
                        and r.get("kind") == "BinaryOperator" and r.get("opcode") == "/"):
                    one = self.unparen(r["inner"][0])
                    den = self.unparen(r["inner"][1])
                    if one.get("kind") == "ImplicitCastExpr" and one.get("castKind") == "IntegralToFloating":
                        one = one["inner"][0]
                    if (one.get("kind") == "IntegerLiteral" and one.get("value") == "1"
                            and den.get("kind") == "FloatingLiteral" and den.get("value") == "86400"):
                        ok = True
        if not ok:
            self.err(n, "the only recognised use of the time parameter is (int)floor(t * (1 / 86400.0))")
        self.day_uses += 1
        return "day"

    def callee(self, n):
        c = n["inner"][0]
        while c.get("kind") in ("ImplicitCastExpr", "ParenExpr"):
            c = c["inner"][0]
        if c.get("kind") != "DeclRefExpr":
            self.err(n, "indirect call")
        return c["referencedDecl"]["name"]

    # ---------- integer-valued double expressions (macros): floor(int / N.0), + - * of those and ints
    def D(self, n, env):
        k = n.get("kind")
        if self.ty(n) != "double":
            self.err(n, "expected a double expression, got " + self.ty(n))
        if k == "ParenExpr":
            return self.D(n["inner"][0], env)
        if k == "ImplicitCastExpr" and n.get("castKind") == "IntegralToFloating":
            return self.E(n["inner"][0], env)
        if k == "CallExpr" and self.callee(n) == "floor" and len(n["inner"]) == 2:
            m = self.unparen(n["inner"][1])
            if m.get("kind") == "BinaryOperator" and m.get("opcode") == "/":
                num = self.unparen(m["inner"][0])
                den = self.unparen(m["inner"][1])
                if (num.get("kind") == "ImplicitCastExpr" and num.get("castKind") == "IntegralToFloating"
                        and den.get("kind") == "FloatingLiteral" and re.fullmatch(r"[1-9][0-9]*", den.get("value", ""))):
                    # floor of an exact quotient by a positive integer constant = Int floor division
                    return "(%s / %s)" % (self.E(num["inner"][0], env), den["value"])
            self.err(n, "floor() of anything but <int expr> / <positive integral literal>")
        if k == "BinaryOperator" and n["opcode"] in ("+", "-", "*"):
            return "(%s %s %s)" % (self.D(n["inner"][0], env), n["opcode"], self.D(n["inner"][1], env))
        self.err(n, "unsupported double expression")

    # ---------- conditions
    def B(self, n, env):
        k = n.get("kind")
        if k == "ParenExpr":
            return self.B(n["inner"][0], env)
        if k == "ImplicitCastExpr" and n.get("castKind") == "IntegralToBoolean":
            return "(%s ≠ 0)" % self.E(n["inner"][0], env)
        if k == "BinaryOperator":
            op = n["opcode"]
            if op in ("&&", "||"):
                return "(%s %s %s)" % (self.B(n["inner"][0], env), "∧" if op == "&&" else "∨", self.B(n["inner"][1], env))
            m = {"<": "<", ">": ">", "<=": "≤", ">=": "≥", "==": "=", "!=": "≠"}
            if op in m:
                return "(%s %s %s)" % (self.E(n["inner"][0], env), m[op], self.E(n["inner"][1], env))
        self.err(n, "unsupported condition")

    # ---------- statements (list + continuation)
    def S(self, stmts, env, ver, ind):
        """stmts: list of AST nodes or ('pop', saved_env_names).  returns Lean text of the value returned."""
        pad = "  " * ind
        if not stmts:
            raise TranslateError("Date.cpp translator: control reaches the end of the function without return")
        s, rest = stmts[0], stmts[1:]
        if isinstance(s, tuple) and s[0] == "join":
            name, params = s[1]
            for p in params:
                if p not in env:
                    raise TranslateError("Date.cpp translator: join point needs variable %s which is out of scope" % p)
            return "%s%s %s\n" % (pad, name, " ".join(env[p] for p in params))
        if isinstance(s, tuple):      # leaving a block: names declared inside go out of scope
            env = dict(env)
            for name, old in s[1].items():
                if old is None:
                    env.pop(name, None)
                else:
                    env[name] = old
            return self.S(rest, env, ver, ind)
        k = s.get("kind")
        if k == "CompoundStmt":
            inner = list(s.get("inner", []))
            declared = {}
            for c in inner:
                if c.get("kind") == "DeclStmt":
                    for v in c.get("inner", []):
                        declared[v.get("name")] = env.get(v.get("name"))
            return self.S(inner + [("pop", declared)] + rest, env, ver, ind)
        if k == "DeclStmt":
            out = ""
            env = dict(env)
            for v in s.get("inner", []):
                if v.get("kind") != "VarDecl" or self.ty(v) not in INT_TYPES or not v.get("inner"):
                    self.err(v, "declaration must be an initialised int variable")
                rhs = self.E(v["inner"][0], env)
                name = self.fresh(v["name"], ver)
                out += "%slet %s : Int := %s\n" % (pad, name, rhs)
                if self.ty(v) == "const int":
                    if name != v["name"]:
                        self.err(v, "constant declared twice")
                    self.consts.append((name, rhs))
                env[v["name"]] = name
            return out + self.S(rest, env, ver, ind)
        if k in ("BinaryOperator", "CompoundAssignOperator"):
            op = s["opcode"]
            lhs = s["inner"][0]
            if lhs.get("kind") != "DeclRefExpr" or self.ty(lhs) != "int" or any(cn == lhs["referencedDecl"]["name"] for cn, _ in self.consts):
                self.err(s, "assignment target must be an int variable")
            cname = lhs["referencedDecl"]["name"]
            if cname not in env:
                self.err(s, "assignment to unknown variable " + cname)
            rhs = self.E(s["inner"][1], env)
            if op == "=":
                val = rhs
            elif op in ("+=", "-=", "*="):
                val = "(%s %s %s)" % (env[cname], op[0], rhs)
            else:
                self.err(s, "assignment operator " + op)
            env = dict(env)
            name = self.fresh(cname, ver)
            env[cname] = name
            return "%slet %s : Int := %s\n" % (pad, name, val) + self.S(rest, env, ver, ind)
        if k == "IfStmt":
            inner = s["inner"]
            if len(inner) not in (2, 3) or (len(inner) == 3) != bool(s.get("hasElse")):
                self.err(s, "if statement with init/condition variable")
            c = self.B(inner[0], env)
            th = [inner[1]]
            el = [inner[2]] if len(inner) == 3 else []
            for i, r in enumerate(rest):      # statements after an unconditional return are unreachable
                if not isinstance(r, tuple) and r.get("kind") == "ReturnStmt":
                    rest = rest[:i + 1]
                    break
            real_rest = [r for r in rest if not isinstance(r, tuple)]
            if self.always_returns(inner[1]) and not el:
                pass      # early return: the continuation belongs to the else branch only
            elif len(real_rest) == 1 and real_rest[0].get("kind") == "ReturnStmt":
                pass      # a lone `return e;` is duplicated into both branches
            elif real_rest:
                # join point: the continuation becomes its own definition, called from both branches
                rest = [("join", self.make_join(rest, env))]
            a = self.S(th + rest, env, dict(ver), ind + 1)
            b = self.S(el + rest, env, dict(ver), ind + 1)
            return "%sif %s then\n%s%selse\n%s" % (pad, c, a, pad, b)
        if k == "ReturnStmt":
            return "%s%s\n" % (pad, self.E(s["inner"][0], env))
        self.err(s, "unsupported statement")

    @staticmethod
    def fresh(cname, ver):
        ver[cname] = ver.get(cname, -1) + 1
        return cname if ver[cname] == 0 else "%s_%d" % (cname, ver[cname])


def _fn_body(doc, name):
    if doc.get("kind") not in ("FunctionDecl",) or doc.get("name") != name:
        raise TranslateError("expected function %s in the AST dump, got %s %s" % (name, doc.get("kind"), doc.get("name")))
    params = [c for c in doc.get("inner", []) if c.get("kind") == "ParmVarDecl"]
    bodies = [c for c in doc.get("inner", []) if c.get("kind") == "CompoundStmt"]
    if len(bodies) != 1:
        raise TranslateError("function %s has no body" % name)
    return params, bodies[0]


def _macro(src, name):
    m = re.search(r"^[ \t]*#[ \t]*define[ \t]+" + name + r"\(([A-Za-z_]\w*)\)[ \t]+(.*?)[ \t]*\r?$", src, re.M)
    if not m:
        raise TranslateError("macro %s(.) not found in src/Date.cpp" % name)
    if m.group(2).rstrip().endswith("\\"):
        raise TranslateError("macro %s spans several lines" % name)
    return m.group(1), m.group(2)


def _string_array(src, decl_regex, what, count):
    m = re.search(decl_regex + r"\s*=\s*\{([^}]*)\}", src)
    if not m:
        raise TranslateError(what + " not found in src/Date.cpp")
    items = re.findall(r'"((?:[^"\\]|\\.)*)"', m.group(1))
    rest = re.sub(r'"((?:[^"\\]|\\.)*)"', "", m.group(1))
    if rest.replace(",", "").strip() or len(items) != count:
        raise TranslateError("%s: expected %d string literals" % (what, count))
    return [cparse.c_string_literal(x) for x in items]


def _lean_bytes(b):
    return "[" + ", ".join(str(x) for x in b) + "]"


def translate(repo):
    path = os.path.join(repo, "src", "Date.cpp")
    if not os.path.exists(path):
        raise TranslateError("src/Date.cpp is missing")
    src = cparse.read(repo, "src/Date.cpp")
    inc = os.path.join(repo, "include")

    # ---- yearFromTime (clang AST of the real file)
    docs = [d for d in _clang_ast(path, "yearFromTime", [inc]) if d.get("kind") == "FunctionDecl" and d.get("name") == "yearFromTime"]
    if len(docs) != 1:
        raise TranslateError("expected exactly one definition of yearFromTime, found %d" % len(docs))
    params, body = _fn_body(docs[0], "yearFromTime")
    if len(params) != 1 or params[0].get("type", {}).get("qualType") != "double" or docs[0]["type"]["qualType"] != "int (double)":
        raise TranslateError("yearFromTime is no longer `int yearFromTime(double)`")
    tr = _Tr(day_param=params[0]["name"], base="yearFromDay")
    yft = tr.S([body], {}, {}, 1)
    joins = "\n".join(tr.defs)
    if tr.day_uses != 1:
        raise TranslateError("yearFromTime: the time parameter must be used exactly once, as (int)floor(t * (1 / 86400.0))")

    # ---- macros daysInYear(y), timeFromYearAsDays(y): same walker on a wrapper that contains the macro text verbatim
    p1, diy = _macro(src, "daysInYear")
    p2, tfy = _macro(src, "timeFromYearAsDays")
    with tempfile.TemporaryDirectory(prefix="c19gen") as td:
        wp = os.path.join(td, "macros.cpp")
        with open(wp, "w") as f:
            f.write("extern \"C\" double floor(double);\n")
            f.write("#define daysInYear(%s) %s\n" % (p1, diy))
            f.write("#define timeFromYearAsDays(%s) %s\n" % (p2, tfy))
            f.write("int aslverif_daysInYear(int y) { return daysInYear(y); }\n")
            f.write("double aslverif_timeFromYearAsDays(int y) { return timeFromYearAsDays(y); }\n")
        mdocs = {d.get("name"): d for d in _clang_ast(wp, "aslverif_") if d.get("kind") == "FunctionDecl"}
    for nm in ("aslverif_daysInYear", "aslverif_timeFromYearAsDays"):
        if nm not in mdocs:
            raise TranslateError("macro wrapper %s did not parse" % nm)

    def single_return(doc, name):
        _, b = _fn_body(doc, name)
        st = b.get("inner", [])
        if len(st) != 1 or st[0].get("kind") != "ReturnStmt":
            raise TranslateError(name + ": wrapper body is not a single return")
        return st[0]["inner"][0]

    t2 = _Tr()
    diy_lean = t2.E(single_return(mdocs["aslverif_daysInYear"], "aslverif_daysInYear"), {"y": "y"})
    tfy_lean = t2.D(single_return(mdocs["aslverif_timeFromYearAsDays"], "aslverif_timeFromYearAsDays"), {"y": "y"})

    # ---- month_days table
    m = re.search(r"static\s+int\s+month_days\s*\[\s*\]\s*\[\s*14\s*\]\s*=\s*\{\s*\{([^}]*)\}\s*,\s*\{([^}]*)\}\s*\}\s*;", src)
    if not m:
        raise TranslateError("month_days[][14] table not found in src/Date.cpp")
    rows = []
    for g in (m.group(1), m.group(2)):
        try:
            row = [int(x, 10) for x in g.replace("\r", " ").replace("\n", " ").split(",") if x.strip()]
        except ValueError as e:
            raise TranslateError("month_days: " + str(e))
        if len(row) != 14:
            raise TranslateError("month_days: row has %d entries" % len(row))
        rows.append(row)

    # ---- names used by the HTTP format and parser
    wd = _string_array(src, r"const\s+char\s*\*\s*wd\s*\[\s*\]", "weekday names wd[]", 7)
    mn = _string_array(src, r"const\s+char\s*\*\s*mn\s*\[\s*\]", "month names mn[]", 12)
    m = re.search(r"static\s+Map<String,\s*int>\s+months\s*=\s*Map<String,\s*int>((?:\s*\(\s*\"[^\"]*\"\s*,\s*\d+\s*\))+)\s*;", src)
    if not m:
        raise TranslateError("parser month map `months` not found in src/Date.cpp")
    pm = re.findall(r'\(\s*"([^"]*)"\s*,\s*(\d+)\s*\)', m.group(1))

    out = "/- GENERATED by tools/props/c19.py from src/Date.cpp — do not edit -/\nset_option linter.unusedVariables false\nnamespace Gen.Date\n\n"
    if joins:
        out += "/- continuations after `if` statements without `else`-return (join points), innermost first -/\n" + joins + "\n"
    out += "/-- `static int yearFromTime(double t)` with `day = (int)floor(t * (1 / 86400.0))`; C int `/` is `Int.tdiv` -/\n"
    out += "def yearFromDay (day : Int) : Int :=\n" + yft + "\n"
    out += "/-- macro `daysInYear(y)` -/\ndef daysInYear (y : Int) : Int :=\n  " + diy_lean + "\n\n"
    out += "/-- macro `timeFromYearAsDays(y)`; `floor(e / N.0)` is Int floor division -/\ndef timeFromYearAsDays (y : Int) : Int :=\n  " + tfy_lean + "\n\n"
    out += "/-- `month_days[2][14]` -/\ndef monthDays : List (List Int) := [\n  [%s],\n  [%s]]\n\n" % (
        ", ".join(map(str, rows[0])), ", ".join(map(str, rows[1])))
    out += "/-- `wd[]` in Date::toString (HTTP) -/\ndef wdNames : List (List UInt8) := [%s]\n\n" % ", ".join(_lean_bytes(x) for x in wd)
    out += "/-- `mn[]` in Date::toString (HTTP) -/\ndef mnNames : List (List UInt8) := [%s]\n\n" % ", ".join(_lean_bytes(x) for x in mn)
    out += "/-- `months` map of the HTTP parser -/\ndef parseMonths : List (List UInt8 × Int) := [%s]\n\n" % ", ".join(
        "(%s, %s)" % (_lean_bytes(cparse.c_string_literal(a)), b) for a, b in pm)
    out += "end Gen.Date\n"
    return {"Gen/DateGen.lean": out}
