"""C19 — Date <-> UTC calendar fields: plugin for tools/check.py

G: `translate` regenerates lean/Gen/DateGen.lean from /repo/src/Date.cpp on every run
   (yearFromTime via the clang-14 JSON AST; the daysInYear / timeFromYearAsDays macros via the same AST
   walker on a two-line wrapper around the macro text; month_days, weekday/month name tables by regex).
K: harness/c19.cpp vs lean/Driver/C19.lean on the ops generated below.
"""
import json
import os
import re
import subprocess
import tempfile

from lib import cparse
from lib.core import hexs, unhex
from lib.engine import TranslateError

ID = "C19"
PROPS_MODULE = "AslProps.C19"
DRIVER = "c19"

# ====================================================================== G: translator

CLANG = "clang++-14"


def _clang_ast(path, filt, incdirs=()):
    cmd = [CLANG, "-std=gnu++11", "-fsyntax-only", "-w"]
    for d in incdirs:
        cmd += ["-I", d]
    cmd += ["-Xclang", "-ast-dump=json", "-Xclang", "-ast-dump-filter=" + filt, path]
    try:
        p = subprocess.run(cmd, stdout=subprocess.PIPE, stderr=subprocess.PIPE, timeout=120)
    except (OSError, subprocess.TimeoutExpired) as e:
        raise TranslateError("cannot run %s: %s" % (CLANG, e))
    if p.returncode != 0:
        raise TranslateError("clang failed on %s: %s" % (path, p.stderr.decode(errors="replace")[-500:]))
    txt = p.stdout.decode(errors="replace")
    dec = json.JSONDecoder()
    docs = []
    i = 0
    while i < len(txt):
        while i < len(txt) and txt[i].isspace():
            i += 1
        if i >= len(txt):
            break
        try:
            o, i = dec.raw_decode(txt, i)
        except ValueError as e:
            raise TranslateError("clang AST is not JSON: %s" % e)
        docs.append(o)
    return docs


INT_TYPES = {"int", "const int"}


class _Tr:
    """loop-free C function over int -> Lean `Int` expression (state-passing lets, continuation duplicated at `if`).
    Anything outside the recognised subset raises TranslateError (never a default)."""

    def __init__(self, day_param=None, base="f"):
        self.day_param = day_param    # name of the `double t` parameter whose only use is (int)floor(t*(1/86400.0))
        self.day_uses = 0
        self.base = base
        self.consts = []              # (name, lean rhs) of `const int` locals, re-emitted in every join definition
        self.defs = []                # finished join definitions (inner ones first)
        self.njoin = 0

    def always_returns(self, n):
        k = n.get("kind")
        if k == "ReturnStmt":
            return True
        if k == "CompoundStmt":
            inner = n.get("inner", [])
            return bool(inner) and self.always_returns(inner[-1])
        if k == "IfStmt":
            inner = n["inner"]
            return len(inner) == 3 and self.always_returns(inner[1]) and self.always_returns(inner[2])
        return False

    def refs_and_decls(self, stmts):
        refs, decls = [], []
        def walk(n):
            if isinstance(n, tuple):
                return
            if n.get("kind") == "DeclRefExpr" and n.get("referencedDecl", {}).get("kind") in ("VarDecl", "ParmVarDecl"):
                nm = n["referencedDecl"]["name"]
                if nm not in refs:
                    refs.append(nm)
            if n.get("kind") == "VarDecl":
                decls.append(n.get("name"))
            for c in n.get("inner", []):
                walk(c)
        for s in stmts:
            walk(s)
        return refs, decls

    def make_join(self, rest, env):
        """the continuation `rest` as a separate definition over the mutable variables it reads"""
        self.njoin += 1
        name = "%s_j%d" % (self.base, self.njoin)
        refs, decls = self.refs_and_decls(rest)
        cn = [c for c, _ in self.consts]
        params = [r for r in refs if r in env and r not in cn]
        for r in refs:
            if r in decls and r in env:
                raise TranslateError("Date.cpp translator: variable %s is re-declared in a continuation that also reads the outer one" % r)
            if r not in env and r not in decls:
                raise TranslateError("Date.cpp translator: continuation reads unknown variable " + r)
        env2 = {c: c for c in cn}
        env2.update({p: p for p in params})
        ver2 = {p: 0 for p in list(cn) + params}
        # scope markers of the enclosing blocks are irrelevant inside the new definition
        body = self.S([r for r in rest if not isinstance(r, tuple)], env2, ver2, 1)
        txt = "def %s %s: Int :=\n" % (name, "".join("(%s : Int) " % p for p in params))
        for c, rhs in self.consts:
            txt += "  let %s : Int := %s\n" % (c, rhs)
        self.defs.append(txt + body)
        return name, params

    # ---------- helpers
    @staticmethod
    def ty(n):
        return n.get("type", {}).get("qualType", "")

    def err(self, n, what):
        loc = n.get("range", {}).get("begin", {})
        raise TranslateError("Date.cpp translator: %s (kind=%s line=%s)" % (what, n.get("kind"), loc.get("line", loc.get("spellingLoc", {}).get("line", "?"))))

    @staticmethod
    def unparen(n):
        while n.get("kind") == "ParenExpr" or (n.get("kind") == "ImplicitCastExpr" and n.get("castKind") == "NoOp"):
            n = n["inner"][0]
        return n

    # ---------- expressions of C type int
    def E(self, n, env):
        k = n.get("kind")
        if k == "IntegerLiteral":
            if self.ty(n) != "int":
                self.err(n, "integer literal of type " + self.ty(n))
            return n["value"]
        if k == "ParenExpr":
            return self.E(n["inner"][0], env)
        if k == "ImplicitCastExpr":
            ck = n.get("castKind")
            if ck in ("LValueToRValue", "NoOp"):
                return self.E(n["inner"][0], env)
            if ck == "FloatingToIntegral":
                return self.day_expr(n["inner"][0], env)
            self.err(n, "implicit cast " + str(ck) + " in an int expression")
        if k == "CStyleCastExpr":
            if self.ty(n) != "int":
                self.err(n, "cast to " + self.ty(n))
            return self.E(n["inner"][0], env)
        if k == "DeclRefExpr":
            name = n["referencedDecl"]["name"]
            if self.ty(n) not in INT_TYPES:
                self.err(n, "reference to %s of type %s" % (name, self.ty(n)))
            if name not in env:
                self.err(n, "reference to unknown variable " + name)
            return env[name]
        if k == "BinaryOperator":
            op = n["opcode"]
            if self.ty(n) != "int":
                self.err(n, "operator %s of type %s" % (op, self.ty(n)))
            a = self.E(n["inner"][0], env)
            b = self.E(n["inner"][1], env)
            if op in ("+", "-", "*"):
                return "(%s %s %s)" % (a, op, b)
            if op == "/":
                return "(Int.tdiv %s %s)" % (a, b)
            if op == "%":
                return "(Int.tmod %s %s)" % (a, b)
            self.err(n, "int operator " + op)
        if k == "UnaryOperator" and n.get("opcode") == "-" and self.ty(n) == "int":
            return "(- %s)" % self.E(n["inner"][0], env)
        if k == "ConditionalOperator":
            if self.ty(n) != "int":
                self.err(n, "?: of type " + self.ty(n))
            c = self.B(n["inner"][0], env)
            return "(if %s then %s else %s)" % (c, self.E(n["inner"][1], env), self.E(n["inner"][2], env))
        self.err(n, "unsupported int expression")

    def day_expr(self, n, env):
        """exactly floor(t * (1 / 86400.0)) -> the integer day parameter"""
        if self.day_param is None:
            self.err(n, "floating-point value converted to int")
        ok = False
        if n.get("kind") == "CallExpr" and len(n["inner"]) == 2 and self.callee(n) == "floor":
            m = self.unparen(n["inner"][1])
            if m.get("kind") == "BinaryOperator" and m.get("opcode") == "*":
                l = self.unparen(m["inner"][0])
                r = self.unparen(m["inner"][1])
                if l.get("kind") == "ImplicitCastExpr" and l.get("castKind") == "LValueToRValue":
                    l = l["inner"][0]
                if (l.get("kind") == "DeclRefExpr" and l["referencedDecl"]["name"] == self.day_param
                        and r.get("kind") == "BinaryOperator" and r.get("opcode") == "/"):
                    one = self.unparen(r["inner"][0])
                    den = self.unparen(r["inner"][1])
                    if one.get("kind") == "ImplicitCastExpr" and one.get("castKind") == "IntegralToFloating":
                        one = one["inner"][0]
                    if (one.get("kind") == "IntegerLiteral" and one.get("value") == "1"
                            and den.get("kind") == "FloatingLiteral" and den.get("value") == "86400"):
                        ok = True
        if not ok:
            self.err(n, "the only recognised use of the time parameter is (int)floor(t * (1 / 86400.0))")
        self.day_uses += 1
        return "day"

    def callee(self, n):
        c = n["inner"][0]
        while c.get("kind") in ("ImplicitCastExpr", "ParenExpr"):
            c = c["inner"][0]
        if c.get("kind") != "DeclRefExpr":
            self.err(n, "indirect call")
        return c["referencedDecl"]["name"]

    # ---------- integer-valued double expressions (macros): floor(int / N.0), + - * of those and ints
    def D(self, n, env):
        k = n.get("kind")
        if self.ty(n) != "double":
            self.err(n, "expected a double expression, got " + self.ty(n))
        if k == "ParenExpr":
            return self.D(n["inner"][0], env)
        if k == "ImplicitCastExpr" and n.get("castKind") == "IntegralToFloating":
            return self.E(n["inner"][0], env)
        if k == "CallExpr" and self.callee(n) == "floor" and len(n["inner"]) == 2:
            m = self.unparen(n["inner"][1])
            if m.get("kind") == "BinaryOperator" and m.get("opcode") == "/":
                num = self.unparen(m["inner"][0])
                den = self.unparen(m["inner"][1])
                if (num.get("kind") == "ImplicitCastExpr" and num.get("castKind") == "IntegralToFloating"
                        and den.get("kind") == "FloatingLiteral" and re.fullmatch(r"[1-9][0-9]*", den.get("value", ""))):
                    # floor of an exact quotient by a positive integer constant = Int floor division
                    return "(%s / %s)" % (self.E(num["inner"][0], env), den["value"])
            self.err(n, "floor() of anything but <int expr> / <positive integral literal>")
        if k == "BinaryOperator" and n["opcode"] in ("+", "-", "*"):
            return "(%s %s %s)" % (self.D(n["inner"][0], env), n["opcode"], self.D(n["inner"][1], env))
        self.err(n, "unsupported double expression")

    # ---------- conditions
    def B(self, n, env):
        k = n.get("kind")
        if k == "ParenExpr":
            return self.B(n["inner"][0], env)
        if k == "ImplicitCastExpr" and n.get("castKind") == "IntegralToBoolean":
            return "(%s ≠ 0)" % self.E(n["inner"][0], env)
        if k == "BinaryOperator":
            op = n["opcode"]
            if op in ("&&", "||"):
                return "(%s %s %s)" % (self.B(n["inner"][0], env), "∧" if op == "&&" else "∨", self.B(n["inner"][1], env))
            m = {"<": "<", ">": ">", "<=": "≤", ">=": "≥", "==": "=", "!=": "≠"}
            if op in m:
                return "(%s %s %s)" % (self.E(n["inner"][0], env), m[op], self.E(n["inner"][1], env))
        self.err(n, "unsupported condition")

    # ---------- statements (list + continuation)
    def S(self, stmts, env, ver, ind):
        """stmts: list of AST nodes or ('pop', saved_env_names).  returns Lean text of the value returned."""
        pad = "  " * ind
        if not stmts:
            raise TranslateError("Date.cpp translator: control reaches the end of the function without return")
        s, rest = stmts[0], stmts[1:]
        if isinstance(s, tuple) and s[0] == "join":
            name, params = s[1]
            for p in params:
                if p not in env:
                    raise TranslateError("Date.cpp translator: join point needs variable %s which is out of scope" % p)
            return "%s%s %s\n" % (pad, name, " ".join(env[p] for p in params))
        if isinstance(s, tuple):      # leaving a block: names declared inside go out of scope
            env = dict(env)
            for name, old in s[1].items():
                if old is None:
                    env.pop(name, None)
                else:
                    env[name] = old
            return self.S(rest, env, ver, ind)
        k = s.get("kind")
        if k == "CompoundStmt":
            inner = list(s.get("inner", []))
            declared = {}
            for c in inner:
                if c.get("kind") == "DeclStmt":
                    for v in c.get("inner", []):
                        declared[v.get("name")] = env.get(v.get("name"))
            return self.S(inner + [("pop", declared)] + rest, env, ver, ind)
        if k == "DeclStmt":
            out = ""
            env = dict(env)
            for v in s.get("inner", []):
                if v.get("kind") != "VarDecl" or self.ty(v) not in INT_TYPES or not v.get("inner"):
                    self.err(v, "declaration must be an initialised int variable")
                rhs = self.E(v["inner"][0], env)
                name = self.fresh(v["name"], ver)
                out += "%slet %s : Int := %s\n" % (pad, name, rhs)
                if self.ty(v) == "const int":
                    if name != v["name"]:
                        self.err(v, "constant declared twice")
                    self.consts.append((name, rhs))
                env[v["name"]] = name
            return out + self.S(rest, env, ver, ind)
        if k in ("BinaryOperator", "CompoundAssignOperator"):
            op = s["opcode"]
            lhs = s["inner"][0]
            if lhs.get("kind") != "DeclRefExpr" or self.ty(lhs) != "int" or any(cn == lhs["referencedDecl"]["name"] for cn, _ in self.consts):
                self.err(s, "assignment target must be an int variable")
            cname = lhs["referencedDecl"]["name"]
            if cname not in env:
                self.err(s, "assignment to unknown variable " + cname)
            rhs = self.E(s["inner"][1], env)
            if op == "=":
                val = rhs
            elif op in ("+=", "-=", "*="):
                val = "(%s %s %s)" % (env[cname], op[0], rhs)
            else:
                self.err(s, "assignment operator " + op)
            env = dict(env)
            name = self.fresh(cname, ver)
            env[cname] = name
            return "%slet %s : Int := %s\n" % (pad, name, val) + self.S(rest, env, ver, ind)
        if k == "IfStmt":
            inner = s["inner"]
            if len(inner) not in (2, 3) or (len(inner) == 3) != bool(s.get("hasElse")):
                self.err(s, "if statement with init/condition variable")
            c = self.B(inner[0], env)
            th = [inner[1]]
            el = [inner[2]] if len(inner) == 3 else []
            for i, r in enumerate(rest):      # statements after an unconditional return are unreachable
                if not isinstance(r, tuple) and r.get("kind") == "ReturnStmt":
                    rest = rest[:i + 1]
                    break
            real_rest = [r for r in rest if not isinstance(r, tuple)]
            if self.always_returns(inner[1]) and not el:
                pass      # early return: the continuation belongs to the else branch only
            elif len(real_rest) == 1 and real_rest[0].get("kind") == "ReturnStmt":
                pass      # a lone `return e;` is duplicated into both branches
            elif real_rest:
                # join point: the continuation becomes its own definition, called from both branches
                rest = [("join", self.make_join(rest, env))]
            a = self.S(th + rest, env, dict(ver), ind + 1)
            b = self.S(el + rest, env, dict(ver), ind + 1)
            return "%sif %s then\n%s%selse\n%s" % (pad, c, a, pad, b)
        if k == "ReturnStmt":
            return "%s%s\n" % (pad, self.E(s["inner"][0], env))
        self.err(s, "unsupported statement")

    @staticmethod
    def fresh(cname, ver):
        ver[cname] = ver.get(cname, -1) + 1
        return cname if ver[cname] == 0 else "%s_%d" % (cname, ver[cname])


def _fn_body(doc, name):
    if doc.get("kind") not in ("FunctionDecl",) or doc.get("name") != name:
        raise TranslateError("expected function %s in the AST dump, got %s %s" % (name, doc.get("kind"), doc.get("name")))
    params = [c for c in doc.get("inner", []) if c.get("kind") == "ParmVarDecl"]
    bodies = [c for c in doc.get("inner", []) if c.get("kind") == "CompoundStmt"]
    if len(bodies) != 1:
        raise TranslateError("function %s has no body" % name)
    return params, bodies[0]


def _macro(src, name):
    m = re.search(r"^[ \t]*#[ \t]*define[ \t]+" + name + r"\(([A-Za-z_]\w*)\)[ \t]+(.*?)[ \t]*\r?$", src, re.M)
    if not m:
        raise TranslateError("macro %s(.) not found in src/Date.cpp" % name)
    if m.group(2).rstrip().endswith("\\"):
        raise TranslateError("macro %s spans several lines" % name)
    return m.group(1), m.group(2)


def _string_array(src, decl_regex, what, count):
    m = re.search(decl_regex + r"\s*=\s*\{([^}]*)\}", src)
    if not m:
        raise TranslateError(what + " not found in src/Date.cpp")
    items = re.findall(r'"((?:[^"\\]|\\.)*)"', m.group(1))
    rest = re.sub(r'"((?:[^"\\]|\\.)*)"', "", m.group(1))
    if rest.replace(",", "").strip() or len(items) != count:
        raise TranslateError("%s: expected %d string literals" % (what, count))
    return [cparse.c_string_literal(x) for x in items]


def _lean_bytes(b):
    return "[" + ", ".join(str(x) for x in b) + "]"


def translate(repo):
    path = os.path.join(repo, "src", "Date.cpp")
    if not os.path.exists(path):
        raise TranslateError("src/Date.cpp is missing")
    src = cparse.read(repo, "src/Date.cpp")
    inc = os.path.join(repo, "include")

    # ---- yearFromTime (clang AST of the real file)
    docs = [d for d in _clang_ast(path, "yearFromTime", [inc]) if d.get("kind") == "FunctionDecl" and d.get("name") == "yearFromTime"]
    if len(docs) != 1:
        raise TranslateError("expected exactly one definition of yearFromTime, found %d" % len(docs))
    params, body = _fn_body(docs[0], "yearFromTime")
    if len(params) != 1 or params[0].get("type", {}).get("qualType") != "double" or docs[0]["type"]["qualType"] != "int (double)":
        raise TranslateError("yearFromTime is no longer `int yearFromTime(double)`")
    tr = _Tr(day_param=params[0]["name"], base="yearFromDay")
    yft = tr.S([body], {}, {}, 1)
    joins = "\n".join(tr.defs)
    if tr.day_uses != 1:
        raise TranslateError("yearFromTime: the time parameter must be used exactly once, as (int)floor(t * (1 / 86400.0))")

    # ---- macros daysInYear(y), timeFromYearAsDays(y): same walker on a wrapper that contains the macro text verbatim
    p1, diy = _macro(src, "daysInYear")
    p2, tfy = _macro(src, "timeFromYearAsDays")
    with tempfile.TemporaryDirectory(prefix="c19gen") as td:
        wp = os.path.join(td, "macros.cpp")
        with open(wp, "w") as f:
            f.write("extern \"C\" double floor(double);\n")
            f.write("#define daysInYear(%s) %s\n" % (p1, diy))
            f.write("#define timeFromYearAsDays(%s) %s\n" % (p2, tfy))
            f.write("int aslverif_daysInYear(int y) { return daysInYear(y); }\n")
            f.write("double aslverif_timeFromYearAsDays(int y) { return timeFromYearAsDays(y); }\n")
        mdocs = {d.get("name"): d for d in _clang_ast(wp, "aslverif_") if d.get("kind") == "FunctionDecl"}
    for nm in ("aslverif_daysInYear", "aslverif_timeFromYearAsDays"):
        if nm not in mdocs:
            raise TranslateError("macro wrapper %s did not parse" % nm)

    def single_return(doc, name):
        _, b = _fn_body(doc, name)
        st = b.get("inner", [])
        if len(st) != 1 or st[0].get("kind") != "ReturnStmt":
            raise TranslateError(name + ": wrapper body is not a single return")
        return st[0]["inner"][0]

    t2 = _Tr()
    diy_lean = t2.E(single_return(mdocs["aslverif_daysInYear"], "aslverif_daysInYear"), {"y": "y"})
    tfy_lean = t2.D(single_return(mdocs["aslverif_timeFromYearAsDays"], "aslverif_timeFromYearAsDays"), {"y": "y"})

    # ---- month_days table
    m = re.search(r"static\s+int\s+month_days\s*\[\s*\]\s*\[\s*14\s*\]\s*=\s*\{\s*\{([^}]*)\}\s*,\s*\{([^}]*)\}\s*\}\s*;", src)
    if not m:
        raise TranslateError("month_days[][14] table not found in src/Date.cpp")
    rows = []
    for g in (m.group(1), m.group(2)):
        try:
            row = [int(x, 10) for x in g.replace("\r", " ").replace("\n", " ").split(",") if x.strip()]
        except ValueError as e:
            raise TranslateError("month_days: " + str(e))
        if len(row) != 14:
            raise TranslateError("month_days: row has %d entries" % len(row))
        rows.append(row)

    # ---- names used by the HTTP format and parser
    wd = _string_array(src, r"const\s+char\s*\*\s*wd\s*\[\s*\]", "weekday names wd[]", 7)
    mn = _string_array(src, r"const\s+char\s*\*\s*mn\s*\[\s*\]", "month names mn[]", 12)
    m = re.search(r"static\s+Map<String,\s*int>\s+months\s*=\s*Map<String,\s*int>((?:\s*\(\s*\"[^\"]*\"\s*,\s*\d+\s*\))+)\s*;", src)
    if not m:
        raise TranslateError("parser month map `months` not found in src/Date.cpp")
    pm = re.findall(r'\(\s*"([^"]*)"\s*,\s*(\d+)\s*\)', m.group(1))

    out = "/- GENERATED by tools/props/c19.py from src/Date.cpp — do not edit -/\nset_option linter.unusedVariables false\nnamespace Gen.Date\n\n"
    if joins:
        out += "/- continuations after `if` statements without `else`-return (join points), innermost first -/\n" + joins + "\n"
    out += "/-- `static int yearFromTime(double t)` with `day = (int)floor(t * (1 / 86400.0))`; C int `/` is `Int.tdiv` -/\n"
    out += "def yearFromDay (day : Int) : Int :=\n" + yft + "\n"
    out += "/-- macro `daysInYear(y)` -/\ndef daysInYear (y : Int) : Int :=\n  " + diy_lean + "\n\n"
    out += "/-- macro `timeFromYearAsDays(y)`; `floor(e / N.0)` is Int floor division -/\ndef timeFromYearAsDays (y : Int) : Int :=\n  " + tfy_lean + "\n\n"
    out += "/-- `month_days[2][14]` -/\ndef monthDays : List (List Int) := [\n  [%s],\n  [%s]]\n\n" % (
        ", ".join(map(str, rows[0])), ", ".join(map(str, rows[1])))
    out += "/-- `wd[]` in Date::toString (HTTP) -/\ndef wdNames : List (List UInt8) := [%s]\n\n" % ", ".join(_lean_bytes(x) for x in wd)
    out += "/-- `mn[]` in Date::toString (HTTP) -/\ndef mnNames : List (List UInt8) := [%s]\n\n" % ", ".join(_lean_bytes(x) for x in mn)
    out += "/-- `months` map of the HTTP parser -/\ndef parseMonths : List (List UInt8 × Int) := [%s]\n\n" % ", ".join(
        "(%s, %s)" % (_lean_bytes(cparse.c_string_literal(a)), b) for a, b in pm)
    out += "end Gen.Date\n"
    return {"Gen/DateGen.lean": out}


# ====================================================================== K: generators, references, exhaustive scans

import datetime as _dt
import math as _math

MS_MIN, MS_MAX = -62135596800000, 253402300799999     # 0001-01-01T00:00:00.000Z .. 9999-12-31T23:59:59.999Z
DAY_MIN, DAY_MAX = -719162, 2932896
_D0 = _dt.datetime(1, 1, 1)
_EPOCH = _dt.datetime(1970, 1, 1)
WD = ["Sun", "Mon", "Tue", "Wed", "Thu", "Fri", "Sat"]
MN = ["Jan", "Feb", "Mar", "Apr", "May", "Jun", "Jul", "Aug", "Sep", "Oct", "Nov", "Dec"]
FMT_NAMES = {0: "LONG", 1: "SHORT", 2: "DATE_ONLY", 3: "HTTP", 4: "FULL"}


def day_of(y, m, d):
    return (_dt.date(y, m, d) - _dt.date(1970, 1, 1)).days


def py_fields(ms):
    """(y, m, d, h, mi, s, weekday Sunday=0, ms part) from python's proleptic Gregorian datetime"""
    t = _D0 + _dt.timedelta(milliseconds=ms - MS_MIN)
    return t.year, t.month, t.day, t.hour, t.minute, t.second, (t.weekday() + 1) % 7, t.microsecond // 1000


def py_make(y, m, d, h, mi, s):
    return ((_dt.datetime(y, m, d, h, mi, s) - _EPOCH) // _dt.timedelta(milliseconds=1))


def py_fmt(k, ms):
    y, m, d, h, mi, s, wd, msp = py_fields(ms)
    if k == 0:
        return "%04d-%02d-%02dT%02d:%02d:%02dZ" % (y, m, d, h, mi, s)
    if k == 1:
        return "%04d%02d%02dT%02d%02d%02dZ" % (y, m, d, h, mi, s)
    if k == 2:
        return "%04d-%02d-%02dZ" % (y, m, d)
    if k == 3:
        return "%s, %02d %s %04d %02d:%02d:%02d GMT" % (WD[wd], d, MN[m - 1], y, h, mi, s)
    return "%04d-%02d-%02dT%02d:%02d:%02d.%03dZ" % (y, m, d, h, mi, s, msp)


def py_inst(ms):
    y, m, d, h, mi, s, wd, msp = py_fields(ms)
    fl = ms - msp
    return "f=%d %d %d %d %d %d %d mk=%d L=%s S=%s D=%s H=%s F=%s rt=%d %d %d %d or=ok" % (
        y, m, d, h, mi, s, wd, fl, py_fmt(0, ms), py_fmt(1, ms), py_fmt(2, ms), py_fmt(3, ms), py_fmt(4, ms), fl, fl, fl, ms)


def c_parse_int_wrap(digits):
    """value of parseInt() on a digit string with 32-bit wrap-around (used only to keep generated fractions away
    from half-millisecond ties, where the double sum cannot be compared to the millisecond)"""
    x, k = 0, 1
    w = lambda v: (v + 2 ** 31) % 2 ** 32 - 2 ** 31
    for c in reversed(digits):
        x = w(x + w((c - 48) * k))
        k = w(k * 10)
    return x


def frac_tie(s):
    """does the byte string contain a fraction `.ddd…` within 0.06 ms of a half-millisecond?"""
    for m in re.finditer(rb"\.([0-9]{4,})", s):
        dg = m.group(1)
        x = c_parse_int_wrap(dg)
        if x < 0:
            continue
        num = x * 1000 * 100
        den = 10 ** len(dg)
        f = (num // den) % 100          # hundredths of a millisecond
        if 44 <= f <= 55:
            return True
    return False


_ISO_EXT = re.compile(rb"^(\d{4})-(\d\d)-(\d\d)T(\d\d):(\d\d)(?::(\d\d))?(?:\.(\d{0,9}))?(Z|[+-]\d\d(?::?\d\d)?)?$")
_ISO_BAS = re.compile(rb"^(\d{4})(\d\d)(\d\d)T(\d\d)(\d\d)(\d\d)?(?:\.(\d{0,9}))?(Z|[+-]\d\d(?::?\d\d)?)?$")
_HTTP = re.compile(rb"^(Sun|Mon|Tue|Wed|Thu|Fri|Sat), (\d\d) (Jan|Feb|Mar|Apr|May|Jun|Jul|Aug|Sep|Oct|Nov|Dec) (\d{4}) (\d\d):(\d\d):(\d\d) GMT$")


def py_parse(b):
    """instant (ms) denoted by a *canonical* ISO 8601 / RFC 1123 string, from the standards; None = no opinion"""
    m = _HTTP.match(b)
    try:
        if m:
            return py_make(int(m.group(4)), MN.index(m.group(3).decode()) + 1, int(m.group(2)), int(m.group(5)), int(m.group(6)), int(m.group(7)))
        m = _ISO_EXT.match(b) or _ISO_BAS.match(b)
        if not m or frac_tie(b):
            return None
        y, mo, d, h, mi = (int(m.group(i)) for i in range(1, 6))
        s = int(m.group(6)) if m.group(6) else 0
        if y < 1:
            return None
        t = py_make(y, mo, d, h, mi, s)
        fr = m.group(7)
        if fr:
            t += (2 * int(fr) * 1000 + 10 ** len(fr)) // (2 * 10 ** len(fr))
        z = m.group(8)
        if z and z != b"Z":
            dg = z[1:].replace(b":", b"")
            off = int(dg[:2]) * 60 + (int(dg[2:4]) if len(dg) == 4 else 0)
            t += -off * 60000 if z[:1] == b"+" else off * 60000
        return t
    except ValueError:
        return None


REFERENCE_NAME = "python3 datetime (proleptic Gregorian) + ISO 8601 / RFC 1123 reading of canonical strings"


def reference(line):
    t = line.split()
    try:
        op = t[0]
        if op == "split":
            ms = int(t[1])
            return " ".join(str(v) for v in py_fields(ms)[:7]) if MS_MIN <= ms <= MS_MAX else None
        if op == "inst":
            ms = int(t[1])
            return py_inst(ms) if MS_MIN <= ms <= MS_MAX else None
        if op == "dbl":
            ms = int(t[1])
            if not (MS_MIN <= ms <= MS_MAX):
                return None
            x = ms / 1000.0                                   # python float: the same binary64 quotient
            n, den = x.as_integer_ratio()
            return "%d %d %d %s %s" % (n, den.bit_length() - 1, _math.floor(x * 1000 + 0.5), " ".join(str(v) for v in py_fields(ms)[:7]), py_fmt(4, ms))
        if op == "addsec":
            ms, sec = int(t[1]), int(t[2])
            r = ms + 1000 * sec
            if not (MS_MIN <= ms <= MS_MAX and MS_MIN <= r <= MS_MAX):
                return None
            x = ms / 1000.0 + float(sec)
            n, den = x.as_integer_ratio()
            return "%d %d %d %s %s" % (n, den.bit_length() - 1, r, " ".join(str(v) for v in py_fields(r)[:7]), py_fmt(4, r))
        if op == "diff":
            m1, m2 = int(t[1]), int(t[2])
            if not (MS_MIN <= m1 <= MS_MAX and MS_MIN <= m2 <= MS_MAX):
                return None
            n, den = (m1 / 1000.0 - m2 / 1000.0).as_integer_ratio()
            return "%d %d %d" % (n, den.bit_length() - 1, m1 - m2)
        if op == "cmp":
            m1, m2 = int(t[1]), int(t[2])
            if not (MS_MIN <= m1 <= MS_MAX and MS_MIN <= m2 <= MS_MAX):
                return None
            return "lt=%d le=%d gt=%d" % (m1 < m2, m1 <= m2, m1 > m2)
        if op == "instu":
            ms = round_ms(int(t[1]))
            return py_inst(ms) if MS_MIN <= ms <= MS_MAX else None
        if op == "tieu":
            return "ok" if MS_MIN <= int(t[1]) // 1000 and int(t[1]) // 1000 + 1 <= MS_MAX else None
        if op == "rtp":
            b = unhex(t[1])
            m = _ISO_EXT.match(b) or _ISO_BAS.match(b)
            return "ok" if m and 2 <= int(m.group(1)) <= 9998 and py_parse(b.split(b".")[0] + b"Z") is not None else None
        if op == "splitu":
            ms = round_ms(int(t[1]))
            return " ".join(str(v) for v in py_fields(ms)[:7]) if MS_MIN <= ms <= MS_MAX else None
        if op == "fmtu":
            ms = round_ms(int(t[2]))
            return hexs(py_fmt(int(t[1]), ms).encode()) if MS_MIN <= ms <= MS_MAX else None
        if op == "fmt":
            ms = int(t[2])
            return hexs(py_fmt(int(t[1]), ms).encode()) if MS_MIN <= ms <= MS_MAX else None
        if op == "rt":
            ms = int(t[2])
            k = int(t[1])
            if not (MS_MIN <= ms <= MS_MAX) or k == 2:
                return None
            return str(ms if k == 4 else ms - ms % 1000)
        if op == "make":
            y, m, d, h, mi, s = (int(x) for x in t[1:7])
            if 1 <= y <= 9999 and 0 <= h < 24 and 0 <= mi < 60 and 0 <= s < 60:
                try:
                    return str(py_make(y, m, d, h, mi, s))
                except ValueError:
                    return None
            return None
        if op == "parse":
            r = py_parse(unhex(t[1]))
            return None if r is None else str(r)
    except Exception:
        return None
    return None


# ---------------------------------------------------------------- generated cases (cheap single-op lines)

ALPHA = b"0123456789TZ:-+. " + b"abcdefghijklmnopqrstuvwxyzABCDEFGHIJKLMNOPQRSUVWXY"
FOCUS = b"0123456789TZ:-+. "


def rand_ms(rng):
    r = rng.random()
    if r < 0.15:
        return rng.randrange(-2208988800000, 4102444800000)             # 1900..2100 (fast path 1904-2099 and its limits)
    if r < 0.25:
        y = rng.choice([1, 4, 100, 400, 1600, 1900, 1904, 1970, 2000, 2099, 2100, 2400, 9999])
        base = day_of(y, rng.choice([1, 2, 3, 12]), rng.choice([1, 28, 29 if y % 4 == 0 and (y % 100 != 0 or y % 400 == 0) else 28, 31 if False else 1]))
        return min(MS_MAX, max(MS_MIN, base * 86400000 + rng.randrange(-2, 3) * 86400000 + rng.randrange(86400000)))
    return rng.randrange(MS_MIN, MS_MAX + 1)


def zone_text(rng, sign, hh, mm, style):
    s = b"+" if sign > 0 else b"-"
    if style == 0:
        return s + b"%02d:%02d" % (hh, mm)
    if style == 1:
        return s + b"%02d%02d" % (hh, mm)
    return s + b"%02d" % hh


def iso_text(rng, ms, ext, secs=True, frac=None, zone=b"Z"):
    y, m, d, h, mi, s = py_fields(ms)[:6]
    if ext:
        b = b"%04d-%02d-%02dT%02d:%02d" % (y, m, d, h, mi) + (b":%02d" % s if secs else b"")
    else:
        b = b"%04d%02d%02dT%02d%02d" % (y, m, d, h, mi) + (b"%02d" % s if secs else b"")
    if frac is not None:
        b += b"." + frac
    return b + zone


def rand_frac(rng, maxd=9):
    n = rng.randrange(1, maxd + 1)
    return bytes(rng.choice(b"0123456789") for _ in range(n))


def mutate(rng, b, alpha):
    b = bytearray(b)
    for _ in range(rng.choice([1, 1, 1, 2, 2, 3])):
        r = rng.random()
        if r < 0.4 and b:
            b[rng.randrange(len(b))] = rng.choice(alpha)
        elif r < 0.7 and b:
            del b[rng.randrange(len(b))]
        elif r < 0.9:
            b.insert(rng.randrange(len(b) + 1), rng.choice(alpha))
        elif b:
            k = rng.randrange(len(b) + 1)
            b = b[:k]
    return bytes(b)


def structured_iso(rng):
    dgt = lambda n: bytes(rng.choice(b"0123456789") for _ in range(n))
    ext = rng.random() < 0.5
    y = dgt(4) if rng.random() < 0.8 else b"%04d" % rng.choice([0, 1, 1900, 1904, 2000, 2099, 2100, 9999])
    mo = b"%02d" % rng.randrange(0, 15) if rng.random() < 0.8 else dgt(2)
    d = b"%02d" % rng.randrange(0, 34) if rng.random() < 0.8 else dgt(2)
    sep = b"-" if ext else b""
    s = y + sep + mo + sep + d
    s += rng.choice([b"T", b"T", b"T", b"T", b" ", b"t", b""])
    h = b"%02d" % rng.randrange(0, 26) if rng.random() < 0.85 else dgt(2)
    mi = b"%02d" % rng.randrange(0, 62) if rng.random() < 0.85 else dgt(2)
    c = (b":" if ext else b"") if rng.random() < 0.9 else rng.choice([b":", b"", b"-"])
    s += h + c + mi
    if rng.random() < 0.7:
        s += c + (b"%02d" % rng.randrange(0, 62) if rng.random() < 0.85 else dgt(2))
    if rng.random() < 0.4:
        s += b"." + dgt(rng.choice([0, 1, 2, 3, 3, 4, 5, 6, 7, 8, 9, 10, 11, 12, 15]))
    z = rng.random()
    if z < 0.25:
        s += b"Z"
    elif z < 0.75:
        s += rng.choice([b"+", b"-"]) + rng.choice([dgt(2) + b":" + dgt(2), dgt(4), dgt(2), dgt(1), b"", dgt(2) + b":" + dgt(1), dgt(3),
                                                    dgt(2) + b":", dgt(2) + b"." + dgt(2), b"%02d:%02d" % (rng.randrange(24), rng.randrange(60)), dgt(5), dgt(2) + b":" + dgt(3)])
    elif z < 0.85:
        s += bytes(rng.choice(ALPHA) for _ in range(rng.randrange(1, 4)))
    return s[:40]


def structured_http(rng):
    ms = rand_ms(rng)
    y, m, d, h, mi, s, wd, _ = py_fields(ms)
    tok = [rng.choice(WD).encode() + b",", b"%02d" % d, MN[m - 1].encode(), b"%04d" % y, b"%02d:%02d:%02d" % (h, mi, s), b"GMT"]
    r = rng.random()
    if r < 0.6:
        i = rng.randrange(6)
        if i == 1:
            tok[1] = rng.choice([b"%d" % rng.randrange(0, 10), b"%02d" % rng.randrange(0, 40), b"1x", b"x1", b"123"])
        elif i == 2:
            tok[2] = rng.choice([b"jan", b"JAN", b"Ja", b"Janu", b"Foo", b"May", b"Dec"])
        elif i == 3:
            tok[3] = bytes(rng.choice(b"0123456789") for _ in range(rng.randrange(1, 7)))      # TODO(int overflow): years of >= 7 digits overflow 365*(y-1970) (signed overflow, no memory effect) and are not generated
            if rng.random() < 0.2:
                tok[3] += b"x"
        elif i == 4:
            tok[4] = mutate(rng, tok[4], b"0123456789:x")
        elif i == 0:
            tok[0] = rng.choice([b"Zed,", b"A", b"Bxx", b"Y", b"thu,", b"Thu"])
        else:
            tok[5] = rng.choice([b"UTC", b"", b"GMT+1"])
    sep = lambda: rng.choice([b" ", b" ", b" ", b"  ", b"\t", b"\n ", b" \r\n"])
    s = b"".join(t + sep() for t in tok if t or rng.random() < 0.5)
    if rng.random() < 0.5:
        s = s.rstrip()
    if rng.random() < 0.1:
        s = b" ".join(tok[:rng.randrange(1, 6)])
    return s


def clean(rng, s):
    """keep the generated string inside the compared class: no NUL, no half-millisecond tie"""
    s = s.replace(b"\0", b"0")
    n = 0
    while frac_tie(s) and n < 20:
        i = s.index(b".")
        s = bytearray(s)
        j = rng.randrange(i + 1, len(s))
        if 48 <= s[j] <= 57:
            s[j] = rng.choice(b"0123456789")
        s = bytes(s)
        n += 1
    return None if frac_tie(s) else s


def gen(rng, tier):
    big = tier != "quick"
    cases = []
    P = lambda b: "parse " + hexs(b)
    # --- single instants: split / fmt / rt / inst, incl. milliseconds and the limits of the range
    edge = [MS_MIN, MS_MIN + 1, MS_MAX, MS_MAX - 999, 0, -1, -1000, 999, 86399999, -86400000, 951782400000, 4107542399999,
            day_of(1904, 1, 1) * 86400000, day_of(1904, 1, 1) * 86400000 - 1, day_of(1904, 1, 2) * 86400000, day_of(1904, 1, 2) * 86400000 - 1,
            day_of(2098, 12, 31) * 86400000 + 86399999, day_of(2099, 1, 1) * 86400000, day_of(2099, 12, 31) * 86400000 + 86399999, day_of(2100, 1, 1) * 86400000,
            day_of(1903, 12, 31) * 86400000, day_of(2100, 3, 1) * 86400000, day_of(1900, 2, 28) * 86400000 + 86399999, day_of(1900, 3, 1) * 86400000]
    for ms in edge + [rand_ms(rng) for _ in range(4000 if big else 600)]:
        cases.append(["inst %d" % ms, "split %d" % ms] + ["fmt %d %d" % (k, ms) for k in range(5)] + ["rt %d %d" % (k, ms) for k in (0, 1, 3, 4)])
    # --- a fraction of a millisecond around every kind of field boundary (end of second / minute / hour / day / month / year):
    #     the double cannot resolve the 500 us tie, so offsets keep 60 us from it (2 us for instants within 1e9 s of the epoch)
    def next_boundary(ms, kind):
        y, m, d, h, mi, sec = py_fields(ms)[:6]
        if kind == 0:
            return (ms // 1000 + 1) * 1000
        if kind == 1:
            return (ms // 60000 + 1) * 60000
        if kind == 2:
            return (ms // 3600000 + 1) * 3600000
        if kind == 3:
            return (ms // 86400000 + 1) * 86400000
        if kind == 4:
            return py_make(y + (m == 12), m % 12 + 1, 1, 0, 0, 0)
        return py_make(y + 1, 1, 1, 0, 0, 0)
    deltas = [-900, -800, -700, -560, -440, -300, -200, -100, -1, 0, 1, 100, 300, 440, 560, 700, 900, 999]
    near = [-501, -499, 499, 501, -502, 498]
    batch = []
    for _ in range(2500 if big else 350):
        ms = min(max(rand_ms(rng), MS_MIN), MS_MAX - 400 * 86400000)
        b = next_boundary(ms, rng.randrange(6))
        if not (MS_MIN < b < MS_MAX):
            continue
        ds = list(deltas)
        if abs(b) < 10 ** 12:
            ds += near
        elif abs(b) > 10 ** 13:
            ds = [x for x in ds if abs(x) != 440 and abs(x) != 560]      # keep 200 us from the second boundary after rounding
        for dl in ds:
            batch.append("%s %d" % (rng.choice(["instu", "instu", "splitu", "fmtu 4", "fmtu 3"]), b * 1000 + dl))
        cases.append(batch)
        batch = []
    # --- exactly half a millisecond (and within the resolution of the double of it): either neighbouring millisecond is an
    #     acceptable rounding, but fields, formats and round trips must all show the same one (tieu: judged by the harness;
    #     farther than max(1 us, 4 ulp(t)) from the tie the answer must be roundMs, only inside that distance either neighbour passes); .9995 s is where the two roundings used to disagree by a whole second (repo f44eb78)
    for _ in range(250 if big else 40):
        ms = min(max(rand_ms(rng), MS_MIN + 86400000), MS_MAX - 86400000)
        sec = ms // 1000
        batch = ["tieu %d" % (sec * 1000000 + 999500), "tieu %d" % ((sec + rng.randrange(1, 60)) * 1000000 + 999500),
                 "tieu %d" % (sec * 1000000 + rng.randrange(1000) * 1000 + 500)]
        for _ in range(9):
            k = rng.choice([999, 999, 999, rng.randrange(1000)])
            batch.append("tieu %d" % ((sec + rng.randrange(86400)) * 1000000 + k * 1000 + 500 + rng.choice([0, 0, 0, 1, -1, 7, -7, 30, -30, 55, -55])))
        cases.append(batch)
    # parse -> FULL -> parse on fractions around the tie, in every spelling (the property's own round trip clause)
    for _ in range(250 if big else 40):
        batch = []
        for _ in range(12):
            ms = min(max(rand_ms(rng), MS_MIN + 3 * 86400000), MS_MAX - 3 * 86400000)
            fr = rng.choice([b"9995", b"9995", b"99950001", b"999500001", b"99949999", b"999499999", b"4995", b"0005", b"99951", b"9994", b"9996",
                             b"%03d5" % rng.randrange(1000), rand_frac(rng), b"%03d4999" % rng.randrange(1000)])
            z = rng.choice([b"Z", b"Z", b"", zone_text(rng, rng.choice([1, -1]), rng.randrange(24), rng.randrange(60), rng.randrange(3))])
            batch.append("rtp " + hexs(iso_text(rng, ms, rng.random() < 0.6, True, fr, z)))
        cases.append(batch)
    # --- the stored double of whole-millisecond instants (op dbl: n / 2^k in lowest terms, floor(t*1000+0.5), fields, FULL):
    #     every binade 2^j s on both sides of its edge, small instants around the epoch, the limits, random; some out of range / malformed
    batch = ["dbl %d" % v for v in (MS_MIN, MS_MAX, 0, 1, -1, 999, 1000, -1000, 1500, 500, -500, MS_MIN - 1, MS_MAX + 1)] + ["dbl x", "dbl 1.5", "dbl"]
    for j in range(39):
        for sg in (1, -1):
            for dl in (-1, 0, 1, rng.randrange(-999, 1000), rng.randrange(-10 ** 6, 10 ** 6)):
                batch.append("dbl %d" % (sg * (2 ** j) * 1000 + dl))
    cases.append(batch)
    for _ in range(40 if big else 6):
        cases.append(["dbl %d" % (rng.randrange(-5000, 5000) if rng.random() < 0.1 else rand_ms(rng) if rng.random() < 0.97 else rng.choice([MS_MIN - 1 - rng.randrange(10 ** 9), MS_MAX + 1 + rng.randrange(10 ** 9)])) for _ in range(50)])
    # --- arithmetic and order on stored dates: Date + s / Date - s (whole seconds; the sum is rounded to a double again) and < <= >
    #     of instants 0, 1, 2 ms apart and far apart; cancellations to around the epoch; results across binade edges; out of range
    for _ in range(30 if big else 5):
        batch = []
        for _ in range(25):
            ms = rand_ms(rng)
            r = rng.random()
            if r < 0.3:
                sec = rng.choice([1, -1, 60, -60, 3600, 86400, -86400, 7 * 86400, 365 * 86400, -366 * 86400]) * rng.randrange(1, 40)
            elif r < 0.5:
                sec = -(ms // 1000) + rng.randrange(-3, 4)                      # cancels to within seconds of the epoch
            elif r < 0.65:
                sec = rng.choice([1, -1]) * 2 ** rng.randrange(38) - ms // 1000 + rng.randrange(-1, 2)    # lands on a binade edge
            elif r < 0.95:
                sec = (rand_ms(rng) - ms) // 1000
            else:
                sec = rng.choice([1, -1]) * rng.randrange(3 * 10 ** 11, 10 ** 13)   # mostly out of range
            batch.append("addsec %d %d" % (ms, sec))
            m2 = ms + rng.choice([0, 1, -1, 2, -2, 1000, -1000, rng.randrange(-10 ** 6, 10 ** 6)]) if rng.random() < 0.8 else rand_ms(rng)
            batch.append("cmp %d %d" % (ms, m2))
            batch.append("diff %d %d" % ((ms, m2) if rng.random() < 0.5 else (m2, ms)))
        batch += ["addsec 0 0", "addsec %d 0" % MS_MAX, "addsec %d -1" % MS_MIN, "addsec 1 x", "cmp 5", "diff %d %d" % (MS_MAX, MS_MIN), "diff %d %d" % (MS_MIN, MS_MAX), "diff 0 0", "diff 7 %d" % (MS_MIN - 1), "diff 1", "cmp %d %d" % (MS_MIN, MS_MAX), "cmp %d %d" % (MS_MAX, MS_MAX + 1)]
        cases.append(batch)
    for k in (-719162, -1, 0, 1, 11016, 47482, 2932896):       # t = 86400 k - eps, eps = 0.0001 .. 0.0009 s
        cases.append(["instu %d" % (k * 86400 * 1000000 - e) for e in (100, 200, 300, 400, 600, 700, 800, 900) if not (abs(k) > 100000 and e in (400, 600))])
    # --- every zone offset -23:59..+23:59 (all styles in thorough, one random style each in quick)
    batch = []
    for sign in (1, -1):
        for hh in range(24):
            for mm in range(60):
                styles = [0, 1] if big else [rng.choice([0, 1])]
                if mm == 0:
                    styles = styles + [2]
                for st in styles:
                    ms = rand_ms(rng)
                    ms = min(max(ms, MS_MIN + 2 * 86400000), MS_MAX - 2 * 86400000)
                    ext = rng.random() < 0.5
                    secs = rng.random() < 0.8
                    fr = rand_frac(rng) if rng.random() < 0.3 else None
                    b = clean(rng, iso_text(rng, ms, ext, secs, fr, zone_text(rng, sign, hh, mm, st)))
                    if b is not None:
                        batch.append(P(b))
                    if len(batch) >= 40:
                        cases.append(batch)
                        batch = []
    if batch:
        cases.append(batch)
    # --- fractions of 1..9 digits (and longer ones, where parseInt wraps), all zone styles
    for nd in list(range(0, 13)) + [15, 20]:
        for _ in range(200 if big else 30):
            ms = rand_ms(rng)
            ms = min(max(ms, MS_MIN + 2 * 86400000), MS_MAX - 2 * 86400000)
            fr = bytes(rng.choice(b"0123456789") for _ in range(nd))
            if rng.random() < 0.2 and nd:
                fr = rng.choice([b"0" * nd, b"9" * nd, b"0" * (nd - 1) + b"1", b"5" + b"0" * (nd - 1)])
            z = rng.choice([b"Z", b"", zone_text(rng, rng.choice([1, -1]), rng.randrange(24), rng.randrange(60), rng.randrange(3))])
            b = clean(rng, iso_text(rng, ms, rng.random() < 0.5, rng.random() < 0.9, fr, z))
            if b is not None:
                cases.append([P(b)])
    # --- canonical strings without seconds / without zone, lower bound lengths
    for _ in range(1500 if big else 200):
        ms = rand_ms(rng)
        b = iso_text(rng, ms, rng.random() < 0.5, rng.random() < 0.5, None, rng.choice([b"Z", b"", b"+00:00", b"-0000"]))
        cases.append([P(b)])
    # --- arbitrary strings over the property's alphabet, up to length 40
    n_rand = 60000 if big else 6000
    batch = []
    for i in range(n_rand):
        r = rng.random()
        if r < 0.25:
            L = rng.randrange(0, 41)
            al = FOCUS if rng.random() < 0.6 else ALPHA
            s = bytes(rng.choice(al) for _ in range(L))
        elif r < 0.5:
            s = structured_iso(rng)
        elif r < 0.7:
            ms = rand_ms(rng)
            k = rng.choice([0, 1, 3, 4])
            s = mutate(rng, py_fmt(k, ms).encode(), FOCUS if rng.random() < 0.7 else ALPHA)
        elif r < 0.85:
            s = structured_http(rng)
        else:
            s = mutate(rng, structured_iso(rng), FOCUS)
        s = clean(rng, s[:40] if r < 0.7 or r >= 0.85 else s)
        if s is None:
            continue
        batch.append(P(s))
        if len(batch) >= 25:
            cases.append(batch)
            batch = []
    if batch:
        cases.append(batch)
    # all strings of length <= 2 over the focus alphabet, and every single byte
    cases.append([P(bytes([c])) for c in range(1, 256)])
    cases.append([P(b"")] + [P(bytes([a, b])) for a in FOCUS for b in FOCUS])
    # --- format-driven parser Date(str, fmt): well-formed pairs, truncated / mutated strings, formats longer than the string
    fmts = [b"D/M/Y?h:m", b"Y-M-D h:m:s", b"YMD", b"Y-M-DTh:m:sZ", b"D.M.Y", b"h:m:s D/M/Y", b"??Y??", b"Y", b"M/D/Y h:m", b"Y-M-D?h:m:s?????", b"D M Y", b"x", b"?"]
    batch = []
    for _ in range(12000 if big else 1500):
        f = rng.choice(fmts)
        if rng.random() < 0.3:
            f = mutate(rng, f, b"YMDhms?/-: .x")
        y, m, d, h, mi, sec = py_fields(rand_ms(rng))[:6]
        val = {89: y, 77: m, 68: d, 104: h, 109: mi, 115: sec}
        st = bytearray()
        for c in f:
            if c in val:
                r = rng.random()
                v = val[c] if r < 0.7 else rng.randrange(0, 1000000) if r < 0.9 else rng.randrange(-99999, 100)
                st += (b"%d" % v) if rng.random() < 0.8 else (b"%02d" % v if v >= 0 else b"%d" % v)
            elif c == 63:
                st.append(rng.choice(b" T:/x"))
            else:
                st.append(c)
        st = bytes(st)
        r = rng.random()
        if r < 0.25:
            st = st[:rng.randrange(len(st) + 1)]
        elif r < 0.5:
            st = mutate(rng, st, b"0123456789 +-/:.Tx")
        elif r < 0.55 and 89 not in f:
            # TODO(int overflow): a year beyond +-5.8e6 overflows 365*(y-1970) (signed overflow, no memory effect); long digit runs only without Y
            k = rng.randrange(len(st) + 1)
            st = st[:k] + bytes(rng.choice(b"0123456789") for _ in range(rng.randrange(7, 26))) + st[k:]
        if 89 in f and re.search(rb"[0-9]{7}", st):
            continue
        st = st.replace(b"\0", b"0")
        f = f.replace(b"\0", b"?")
        batch.append("parsefmt %s %s" % (hexs(st), hexs(f)))
        if len(batch) >= 25:
            cases.append(batch)
            batch = []
    if batch:
        cases.append(batch)
    # --- construct from fields: valid tuples and every kind of out-of-range component
    for _ in range(6000 if big else 800):
        r = rng.random()
        if r < 0.4:
            y, m, d, h, mi, s = py_fields(rand_ms(rng))[:6]
        elif r < 0.7:
            y = rng.choice([rng.randrange(1, 10000), rng.randrange(-100002, -99998), rng.randrange(-5, 5), rng.randrange(9990, 10010), rng.randrange(-100000, 1000000)])
            m = rng.randrange(-1, 15)
            d = rng.randrange(-1, 34)
            h, mi, s = rng.randrange(-2, 27), rng.randrange(-2, 63), rng.randrange(-2, 63)
        else:
            y, m, d = rng.randrange(1, 10000), rng.randrange(1, 13), rng.randrange(0, 32)
            h, mi, s = rng.randrange(-100000, 100000), rng.randrange(-100000, 100000), rng.randrange(-100000, 100000)
        cases.append(["make %d %d %d %d %d %d" % (y, m, d, h, mi, s)])
    return cases


def nontrivial(case):
    return any(l.split()[0] in ("inst", "instu", "dbl", "addsec", "cmp", "diff", "tieu", "rtp", "split", "splitu", "make", "rt", "fmt", "fmtu", "parsefmt") or (l.startswith("parse ") and len(l.split()[1]) >= 16) for l in case)


def _parse_class(b):
    if not b:
        return "empty"
    if 65 < b[0] < 90:
        return "http-like" + ("-valid" if _HTTP.match(b) else "")
    if _ISO_EXT.match(b) or _ISO_BAS.match(b):
        m = _ISO_EXT.match(b) or _ISO_BAS.match(b)
        z = m.group(8)
        return "iso-canonical" + ("-frac%d" % len(m.group(7)) if m.group(7) is not None else "") + ("-offset" if z and z != b"Z" else "-Z" if z else "-nozone")
    if len(b) >= 8 and b[:4].isdigit():
        return "iso-like-noncanonical"
    return "other"


def distribution(cases):
    ops = {}
    cls = {}
    lens = {}
    for c in cases:
        for l in c:
            t = l.split()
            ops[t[0]] = ops.get(t[0], 0) + 1
            if t[0] == "parse":
                b = unhex(t[1])
                k = _parse_class(b)
                cls[k] = cls.get(k, 0) + 1
                lb = "%d-%d" % (len(b) // 8 * 8, len(b) // 8 * 8 + 7)
                lens[lb] = lens.get(lb, 0) + 1
    return {"ops_by_kind": ops, "parse_string_classes": cls, "parse_string_lengths": lens}


# ---------------------------------------------------------------- exhaustive scans (run from extra(): own batching + exact bisection)

SPECIAL_DAYS = [(1, 1, 1), (1, 12, 31), (4, 2, 29), (100, 2, 28), (100, 3, 1), (400, 2, 29), (1582, 10, 15), (1600, 2, 29), (1700, 2, 28), (1700, 3, 1),
                (1899, 12, 31), (1900, 1, 1), (1900, 2, 28), (1900, 3, 1), (1903, 12, 31), (1904, 1, 1), (1904, 1, 2), (1904, 2, 29), (1969, 12, 31), (1970, 1, 1),
                (1999, 12, 31), (2000, 1, 1), (2000, 2, 29), (2000, 12, 31), (2038, 1, 19), (2096, 2, 29), (2098, 12, 31), (2099, 1, 1), (2099, 12, 31), (2100, 1, 1), (2100, 2, 28),
                (2100, 3, 1), (2400, 2, 29), (2400, 12, 31), (4000, 2, 29), (8000, 2, 29), (9999, 1, 1), (9999, 12, 31), (9600, 2, 29), (9900, 2, 28), (9900, 3, 1)]


def scan_lines(rng, tier):
    """(lines, instants, days).  Two kinds of lines: scan/secs are hashed on both sides (model = implementation on every
    instant); oscan/osecs run the implementation against the harness's own Hinnant oracle only (the model is ~3x slower
    than the ASan build of the library, so the complete enumeration is carried by the oracle lines).
    thorough: oscan of every day 0001-01-01..9999-12-31 at 00:00:00, 12:00:00, 23:59:59 (each with a day-dependent
    millisecond part) + scan of every 7th day and of 4 days around every 1 Jan / 28 Feb; osecs of every second of 200
    sampled days + secs of 16 of them.  quick: oscan every 61st day, scan every 499th day (seeded residues) + the
    year boundaries of a seeded 1/8 of the years, of all century years and their neighbours and of every year 1890..2110 (both ends of the fast path); osecs of 1 day + secs of 6 hours of another."""
    lines = []
    inst = 0
    CH = 250
    sods = (0, 43200, 86399)
    quick = tier == "quick"

    def strided(op, stride, off):
        nonlocal inst
        n_total = (DAY_MAX - (DAY_MIN + off)) // stride + 1
        for sod in sods:
            i = 0
            while i < n_total:
                n = min(CH, n_total - i)
                lines.append("%s %d %d %d %d" % (op, DAY_MIN + off + stride * i, n, sod, stride))
                inst += n
                i += n

    def strided0(op, stride, off, mode):
        """00:00:00 only: mode 0 = exactly midnight (t = 86400 k), mode 2 = 100..900 microseconds before midnight"""
        nonlocal inst
        n_total = (DAY_MAX - (DAY_MIN + off)) // stride + 1
        i = 0
        while i < n_total:
            n = min(CH, n_total - i)
            lines.append("%s %d %d 0 %d %d" % (op, DAY_MIN + off + stride * i, n, stride, mode))
            inst += n
            i += n

    if quick:
        o1, o2 = rng.randrange(61), rng.randrange(499)
        strided("oscan", 61, o1)
        strided("scan", 499, o2)
        for mode in (0, 2):
            strided0("oscan", 61, (o1 + 7 * mode + 3) % 61, mode)
            strided0("scan", 499, (o2 + 7 * mode + 3) % 499, mode)
    else:
        strided("oscan", 1, 0)
        o7 = rng.randrange(7)
        strided("scan", 7, o7)
        for mode in (0, 2):
            strided0("oscan", 1, 0, mode)
            strided0("scan", 7, (o7 + mode + 1) % 7, mode)
    r8 = rng.randrange(8)
    for y in range(1, 10000):
        if quick and y % 8 != r8 and y % 100 not in (0, 1, 99) and not (1890 <= y <= 2110) and y not in (1, 2, 9998, 9999):
            continue
        a = max(DAY_MIN, day_of(y, 1, 1) - 2)
        lines.append("scan %d %d %d 1" % (a, 4, sods[(y + r8) % 3]))
        lines.append("scan %d %d %d 1" % (day_of(y, 2, 27), 4, sods[(y + r8 + 1) % 3]))
        # the same days exactly at midnight and a fraction of a millisecond before it
        lines.append("scan %d %d 0 1 %d" % (a, 4, 2 if (y + r8) % 2 else 0))
        lines.append("scan %d %d 0 1 %d" % (day_of(y, 2, 27), 4, 0 if (y + r8) % 2 else 2))
        inst += 16
    sp = [day_of(*x) for x in SPECIAL_DAYS]
    if quick:
        odays = [rng.choice(sp + [rng.randrange(DAY_MIN, DAY_MAX + 1) for _ in range(len(sp))])]
        mdays = [rng.choice(sp + [rng.randrange(DAY_MIN, DAY_MAX + 1) for _ in range(len(sp))])]
    else:
        odays = sp + [rng.randrange(DAY_MIN, DAY_MAX + 1) for _ in range(200 - len(sp))]
        mdays = rng.sample(sp, 8) + rng.sample(odays[len(sp):], 8)
    q0 = rng.randrange(4) * 21600
    for op, ds in (("osecs", odays), ("secs", mdays)):
        for d in ds:
            for s0 in (range(q0, q0 + 21600, 300) if quick and op == "secs" else range(0, 86400, 300)):
                lines.append("%s %d %d %d" % (op, d, s0, 300))
                inst += 300
    return lines, inst, odays + mdays


def round_ms(us):
    """nearest millisecond, ties up"""
    return (us + 500) // 1000


def us_of_day(day, mode):
    if mode == 0:
        return 0
    if mode == 1:
        return (day * 7919) % 1000 * 1000
    return -[100, 200, 300, 700, 800, 900][(day * 7919) % 6]


def instants_of(line):
    """the scanned instants in microseconds"""
    t = line.split()
    if t[0] in ("scan", "oscan"):
        d0, n, sod, st = int(t[1]), int(t[2]), int(t[3]), int(t[4])
        mode = int(t[5]) if len(t) > 5 else 1
        us = [((d0 + st * i) * 86400 + sod) * 1000000 + us_of_day(d0 + st * i, mode) for i in range(n)]
        return [u for u in us if MS_MIN <= round_ms(u) <= MS_MAX]
    day, s0, n = int(t[1]), int(t[2]), int(t[3])
    return [(day * 86400 + s0 + i) * 1000000 for i in range(n)]


EXHAUSTIVE = {"quick": "sample only: every 61st day (implementation vs built-in oracle) and every 499th day (vs model) of 0001-01-01..9999-12-31 at 00:00:00, "
                       "12:00:00, 23:59:59, the days around 1 January / 28 February of 1/8 of the years, all century years and their neighbours and every year 1890..2110, every second of one day; "
                       "the strided days also exactly at midnight (t = 86400 k) and 100..900 us before midnight; "
                       "complete: all 2880 zone offsets -23:59..+23:59, every single byte and every 2-byte string over the focus alphabet",
              "thorough": "every day 0001-01-01..9999-12-31 at 00:00:00, 12:00:00 and 23:59:59 (3 x 3 652 059 instants, each with a millisecond part) on the "
                          "implementation against the built-in days-from-civil oracle, every 7th day and 8 days around the start and the end of February of "
                          "every year also against the model; every day additionally exactly at midnight (t = 86400 k, millisecond part 0) and 100..900 microseconds before midnight "
                          "(oracle: every day; model: every 7th day); every second of 200 sampled days incl. leap days, century boundaries and both ends of the "
                          "1904-2099 fast path (16 of them also against the model); all 2880 zone offsets in every spelling"}


def extra(ctx):
    from concurrent.futures import ThreadPoolExecutor
    from lib import core
    from lib.engine import Failure
    exe, tier, rng, stats = ctx["exe"], ctx["tier"], ctx["rng"], ctx["stats"]
    lines, ninst, days = scan_lines(rng, tier)
    nb = max(1, min(core.NCPU, len(lines) // 50 or 1))
    # interleave so that every batch gets the same mix of cheap and expensive lines
    batches = [lines[i::nb] for i in range(nb)]

    def run(b):
        full = ["case 0"] + b
        impl, crash, err = core.run_impl(exe, full, timeout=3000)
        model = core.run_model(DRIVER, full)
        return b, impl[1:], model[1:], crash, err

    fails = []
    ok_lines = 0
    with ThreadPoolExecutor(max_workers=nb) as ex:
        results = list(ex.map(run, batches))
    for b, impl, model, crash, err in results:
        bad = None
        for i, l in enumerate(b):
            if i >= len(impl) or impl[i] != model[i]:
                bad = i
                break
            ok_lines += 1
        if bad is None:
            continue
        if len(fails) >= 3:
            continue
        # exact bisection: replay every instant of the offending line as a verbose `inst` op
        ins = ["instu %d" % us for us in instants_of(b[bad])]
        impl2, crash2, err2 = core.run_impl(exe, ["case 0"] + ins, timeout=600)
        model2 = core.run_model(DRIVER, ["case 0"] + ins)
        k = None
        for i in range(len(ins)):
            if i + 1 >= len(impl2) or impl2[i + 1] != model2[i + 1]:
                k = i
                break
        if k is None:
            f = Failure("crash" if crash else "diverge", [b[bad]], ["case"] + impl[bad:bad + 1], ["case", model[bad]], crash=crash, stderr=(err or "")[-3000:])
        elif i + 1 >= len(impl2):
            f = Failure("crash", [ins[k]], ["case"], ["case", model2[k + 1]], crash=crash2 or "crash", stderr=(err2 or "")[-3000:])
        else:
            f = Failure("diverge", [ins[k]], ["case", impl2[k + 1]], ["case", model2[k + 1]])
        f.clause = ("the fields / strings / parsed instants of this instant differ from the model (which the theorems tie to the proleptic "
                    "Gregorian calendar) or from the harness's independent days-from-civil oracle (or=BAD names the clause)")
        f.name = "exhaustive scan K(C19): harness/c19.cpp (real asl::Date + Hinnant oracle) vs lean/Driver/C19.lean"
        fails.append(f)
    stats["evaluations"] += len(lines)
    stats["distinct_nontrivial"] += len(lines)
    stats["validated"] += ok_lines
    stats["ops"] = stats.get("ops", 0) + len(lines)
    stats["scan_instants"] = ninst
    stats["scan_lines"] = len(lines)
    stats["every_second_of_days"] = len(days)
    stats["scan_oracle"] = "each scanned instant: splitUTC, Date(UTC,fields), 5 formats, 4 parses compared with the model (hash) and with Hinnant civil_from_days + snprintf inside the harness; floor(t*(1/86400.0)) == day checked"
    return fails

RULE = ("cases = groups of single ops on generated inputs: inst/split/fmt/rt on random and boundary instants (with milliseconds), instu/splitu/fmtu on microsecond instants 1..999 us around the end of a second, minute, hour, day, month and year and before midnight, parse on every zone offset "
        "-23:59..+23:59, fractions of 0..20 digits, canonical ISO/HTTP strings, mutated and random strings over digits T Z : - + . letters spaces up to "
        "length 40, make on valid and out-of-range field tuples; plus (extra) exhaustive scan lines, each covering up to 300 instants; "
        "non-trivial = distinct case containing an instant op or a parse of a string of >= 8 bytes")
TECHNIQUE = "Lean 4 theorems over a model regenerated from src/Date.cpp (clang AST -> Lean) + differential correspondence check with exhaustive day scan"
TRUSTED = ["tools/props/c19.py translate(): clang-14 JSON AST walker for yearFromTime and the daysInYear/timeFromYearAsDays macros, regex extraction of "
           "month_days, wd[], mn[], months (src/Date.cpp) into lean/Gen/DateGen.lean; unrecognised constructs are a TranslateError",
           "harness/c19.cpp incl. its Hinnant civil_from_days oracle; python3 datetime as second reference"]
ASSUMPTIONS = ["IEEE-754 double steps abstracted by the model and exercised exhaustively by the scan: floor(t*(1/86400.0)) and floor(t/86400.0) are the integer day, "
               "floor(floor(t*1000+0.5)/1000) and floor(t*1000+0.5) mod 1000 are second and millisecond of the instant rounded to the nearest millisecond (model: roundMs on microseconds; exercised 1..999 us around every kind of field boundary and before every midnight; at the 500 us tie, which a double cannot place, either neighbour is accepted only within max(1 us, 4 ulp(t)) of the tie, elsewhere roundMs is required, and all observables must agree - op tieu, a harness-side oracle: the model side answers only ok/range), t - floor(t/86400.0)*86400.0 is the exact second of the day, "
               "parseInt(frac)*pow(10,1-i) added to the instant is the fraction rounded to the nearest millisecond (for the exact value of `parse` ties within 0.06 ms are not generated; the parse -> FULL -> parse round trip is exercised on them by op rtp within 0.5 ms + max(1 us, 4 ulp(t)), a harness-side oracle: a double near year 9999 cannot resolve them)",
               "C int arithmetic of yearFromTime does not overflow for instants of years 1..9999 (|d| < 3.7e6); elsewhere int arithmetic wraps (modelled by wrap32)",
               "TZ=UTC in the harness: strings without zone designator and the format-driven parser use the local zone, whose offset is then 0",
               "vsnprintf(\"%04i\"/\"%02i\"/\"%03i\") prints zero-padded decimals; String::split() yields the maximal runs of non-space bytes (C03)",
               "libc atoi = (int)strtol: optional space, sign, digits, saturating at the 64-bit long range"]
LEVEL_TEXT = ("Proved in Lean 4 over unbounded integers (the C int arithmetic is the same for every year representable without int overflow: splitUTC for years 0..5 879 609, Date(UTC,..) for years -100000..5 885 486, theorem int_range_of_the_model): the leap-year macro is the Gregorian rule and timeFromYearAsDays is the unique "
              "function that is 0 at 1970 and grows by each year's length (all integer years); month_days is the cumulative sum of the month lengths; "
              "yearFromTime (regenerated from the C source by a clang-AST translator on every run) returns y for every day of every year y >= 0 "
              "(year_of_day, incl. the 1904-2099 fast path and the 400/100/4-year block edges) and always brackets its day; splitUTC yields the calendar "
              "fields, h/m/s and weekday (4+day) mod 7 of every instant from 0000-01-01 on, for a double instant between two milliseconds those of the nearest millisecond, date and time of day of the same rounded instant (calc_is_calendar, calc_is_calendar_us); the day number is Hinnant's days_from_civil (day_number_is_days_from_civil); Date(UTC, fields) o splitUTC = id to the "
              "second and splitUTC o Date(UTC, fields) = id on every valid field tuple (construct_calc, calc_construct, fields_bijection); "
              "parse(format) = instant for the LONG, SHORT, HTTP and (to the millisecond) FULL formats for every instant of years 0..9999 (format_parse; "
              "the formatter's month names are keys of the parser's month map); an ISO string with "
              "offset +-hh:mm, +-hhmm or +-hh denotes local -+ offset for every two-digit hh, mm; Date(String) and Date(String, fmt) never read beyond "
              "the terminator and return invalid or a value, for every byte string (parse_total, parse_fmt_total); the double storage: Date(ms/1000.0) is modelled exactly as the dyadic n/2^k (toDouble, integer arithmetic, no Float), it is a nearest binary64 value with a 53-bit significand for every millisecond of years 1..9999, the exact floor(t*1000+0.5) on it (and on any dyadic strictly within half a millisecond) is ms, so split and every format through the double are those of the integer model and FULL parses back to ms (stored_double_is_nearest, stored_double_53bit, roundMs_of_any_close_double, stored_double_shows_ms, format_parse_stored_double; K op dbl compares n, k, the rounding, the fields and FULL with the real double via frexp, python as_integer_ratio as reference); Date + s and Date - s for whole seconds s (exact sum rounded to binary64 again, addSecD) are shown as exactly ms + 1000 s whenever the result is in years 1..9999, and operator< on stored dates is the order of the instants (add_seconds_exact, sum_is_binary64, stored_order_is_instant_order; K ops addsec, cmp), the double a - b of two stored dates is shown as exactly the difference of the instants in milliseconds (difference_exact; K op diff). Tie to the code: yearFromTime, the "
              "macros and all tables are regenerated into Lean from src/Date.cpp (G); calc/construct/format/parsers are hand transcriptions compared "
              "with the real library (K) on every generated input, and the library is compared with an independent days-from-civil oracle on every "
              "day of years 1..9999 at three times of day (thorough) and every second of sampled days.")
LEVEL_NOTE = ("Not theorems (validated by K, the harness's days-from-civil oracle and python datetime only): ISO strings combining a fraction with an offset or omitting the seconds, the basic format with offsets; the zone offset "
              "theorems are stated for the extended format yyyy-mm-ddThh:mm:ss+-hh[:]mm. Not in the proof: the double arithmetic of Date (floor(t/86400), fractional-day h/m/s extraction, millisecond rounding, "
              "pow(10,1-i)) is abstracted to exact integer milliseconds and checked by the exhaustive scan; int overflow for years beyond +-5.8e6 "
              "(365*(y-1970)) is outside the model and not generated; local-time paths run with TZ=UTC. Trusted: Lean kernel, the clang-AST/regex "
              "translator in tools/props/c19.py, harness/c19.cpp. The stored double of a whole-millisecond instant is modelled exactly and proved to show that millisecond (extension round); what stays validated by K only there is that the floating-point product t*1000+0.5 has the same floor as the exact one (harness fp-round). Doubles that are not whole milliseconds: instants are modelled in microseconds with the rounding to the millisecond explicit (roundMs); at exactly 0.5 ms either neighbouring millisecond is accepted, but consistently in all observables (op tieu; a double near year 9999 resolves 30 us). The repair f44eb78 lies below the model's abstraction (roundMs on integer microseconds): it is covered by the harness-side oracles tieu / rtp (model side: ok/range only; tolerance max(1 us, 4 ulp(t)) around the half-millisecond tie, roundMs required elsewhere) and the fp-round / fp-day re-checks, not by a theorem. Three defects found and repaired: Date(str, fmt) read past the end of str (repo 2de0295); seconds and milliseconds were rounded separately, one second off at .9995 s (repo f44eb78); within 0.5 ms before midnight splitUTC/toString took the date from the unrounded and the time from the rounded instant (repo 4c81461).")
