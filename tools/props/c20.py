"""C20 — Matrix inverse / det / solve / rotation conversions: plugin for tools/check.py"""
import itertools
import math
import struct

from props import c20_translate

ID = "C20"
PROPS_MODULE = "AslProps.C20"
DRIVER = "c20"
P = (1 << 61) - 1

RULE = ("cases = groups of single calls on generated operands. Exact part (real templates instantiated over the prime field "
        "2^61-1): Matrix4/Matrix3 det, inverse, M*inverse(M), products, transposes, vector products on uniformly random, "
        "singular, sparse, affine and small-integer matrices; quaternion matrix()/operator^/conj/inverse/rotation() on random and "
        "unit quaternions; solve/solve_/Matrix::inverse on n x n systems, n = 0..12 (thorough: ..20), 1-3 right-hand sides, random, "
        "sparse, permuted-triangular (zero leading entries, row exchanges needed at every step), singular, and over-determined "
        "full-rank / rank-deficient systems; axis-angle conversions, rotateE and eulerAngles executed exactly with stand-ins for "
        "cos/sin/acos/atan2 (unit, non-unit and zero axes, unit / non-unit / w=+-1 / w=0 quaternions). Numeric part: float and double instantiations against long double references "
        "(inverse, det, solve, least squares with residual <= c*eps*cond; quaternion <-> matrix <-> axis-angle <-> 24 Euler "
        "conventions on random rotations, a grid, gimbal-lock and 180-degree cases). "
        "non-trivial = distinct case containing an op with at least two different operand tokens")
TRUSTED = ["tools/props/c20_translate.py: recursive-descent translation of the C++ arithmetic expressions of Matrix4.h, Matrix3.h, "
           "Quaternion.h into lean/Gen/{Matrix4Gen,Matrix3Gen,QuatGen}.lean (statement shapes matched exactly, constructor "
           "argument order and defaults re-verified, anything else is a TranslateError)",
           "harness/c20.cpp class Fp (arithmetic mod 2^61-1, x/0 = 0, order of the balanced representatives) = AslModel.Fp in lean/AslModel/Fld.lean",
           "harness/c20.cpp long double references and bounds for the numeric (float/double) clauses"]
ASSUMPTIONS = ["field laws for the scalar type (the theorems are over an arbitrary Mathlib Field; the correspondence check "
               "instantiates the prime field 2^61-1; IEEE float/double are NOT fields: their clauses are validated numerically only)",
               "fabs/< of the scalar type select a non-zero pivot whenever one exists (Cmp laws P1,P2 in AslProps/C20.lean; true of "
               "the reals, of IEEE numbers without NaN and of the prime-field order used by the harness)",
               "sqrt returns a square root of the radicand (hypothesis of the rotation() theorems)",
               "cos/sin/atan2/sqrt/PI satisfy TrigOK, TrigAA, TrigDouble, CmpStd of lean/AslProofs/{Euler,AxisAngle}.lean (proved for the real "
               "functions; libm is assumed to approximate them)",
               "libm sin/cos/atan2/sqrt are accurate to a few ulp (numeric clauses only)",
               "Array/Array2 storage (C01) for the dense matrices"]


def translate(repo):
    return c20_translate.translate(repo)


# ------------------------------------------------------------------ exact arithmetic helpers (independent of the code)

def inv(a):
    return pow(a % P, P - 2, P)


def sq(a):
    """a square root mod P or None"""
    r = pow(a % P, (P + 1) // 4, P)
    return r if r * r % P == a % P else None


def mmul(A, B):
    return [[sum(A[i][k] * B[k][j] for k in range(len(B))) % P for j in range(len(B[0]))] for i in range(len(A))]


def mT(A):
    return [list(r) for r in zip(*A)] if A else []


def leibniz(A):
    n = len(A)
    s = 0
    for perm in itertools.permutations(range(n)):
        sign = 1
        for i in range(n):
            for j in range(i + 1, n):
                if perm[i] > perm[j]:
                    sign = -sign
        t = sign
        for i in range(n):
            t = t * A[i][perm[i]] % P
        s = (s + t) % P
    return s


def gauss_solve(A, B):
    """solve A X = B mod P by Gauss-Jordan with first-non-zero pivoting; None if A is singular"""
    n = len(A)
    m = len(B[0]) if B else 0
    M = [list(A[i]) + list(B[i]) for i in range(n)]
    for c in range(n):
        pr = next((r for r in range(c, n) if M[r][c] % P), None)
        if pr is None:
            return None
        M[c], M[pr] = M[pr], M[c]
        iv = inv(M[c][c])
        M[c] = [x * iv % P for x in M[c]]
        for r in range(n):
            if r != c and M[r][c]:
                f = M[r][c]
                M[r] = [(x - f * y) % P for x, y in zip(M[r], M[c])]
    return [row[n:] for row in M]


def rank(A):
    M = [list(r) for r in A]
    rk = 0
    rows = len(M)
    cols = len(M[0]) if M else 0
    for c in range(cols):
        pr = next((r for r in range(rk, rows) if M[r][c] % P), None)
        if pr is None:
            continue
        M[rk], M[pr] = M[pr], M[rk]
        iv = inv(M[rk][c])
        M[rk] = [x * iv % P for x in M[rk]]
        for r in range(rows):
            if r != rk and M[r][c]:
                f = M[r][c]
                M[r] = [(x - f * y) % P for x, y in zip(M[r], M[rk])]
        rk += 1
    return rk


def ident(n):
    return [[1 if i == j else 0 for j in range(n)] for i in range(n)]


def qmul_ref(p, q):
    """Hamilton product from the multiplication table of the basis 1, i, j, k (i^2=j^2=k^2=ijk=-1)"""
    table = {(0, 0): (1, 0), (0, 1): (1, 1), (0, 2): (1, 2), (0, 3): (1, 3),
             (1, 0): (1, 1), (1, 1): (-1, 0), (1, 2): (1, 3), (1, 3): (-1, 2),
             (2, 0): (1, 2), (2, 1): (-1, 3), (2, 2): (-1, 0), (2, 3): (1, 1),
             (3, 0): (1, 3), (3, 1): (1, 2), (3, 2): (-1, 1), (3, 3): (-1, 0)}
    r = [0, 0, 0, 0]
    for a in range(4):
        for b in range(4):
            s, c = table[(a, b)]
            r[c] = (r[c] + s * p[a] * q[b]) % P
    return r


def qmat_ref(q):
    """rotation matrix of a UNIT quaternion from the sandwich product q v q* on the basis vectors"""
    qc = [q[0], -q[1] % P, -q[2] % P, -q[3] % P]
    M = [[0] * 4 for _ in range(4)]
    for c in range(3):
        v = [0, 0, 0, 0]
        v[c + 1] = 1
        u = qmul_ref(qmul_ref(q, v), qc)
        for i in range(3):
            M[i][c] = u[i + 1]
    M[3][3] = 1
    return M


INV2 = (P + 1) // 2


def fake_cs(x):
    """the stand-in (cos x, sin x) = ((1-x^2)/(1+x^2), 2x/(1+x^2)) used over the prime field; None if 1+x^2 = 0"""
    d = (1 + x * x) % P
    if d == 0:
        return None
    i = inv(d)
    return ((1 - x * x) * i % P, 2 * x * i % P)


def rodrigues(u, c, s_):
    """I + sin(t) [u]x + (1 - cos(t)) [u]x^2 for a unit vector u, as a 4x4 homogeneous matrix"""
    K = [[0, -u[2], u[1]], [u[2], 0, -u[0]], [-u[1], u[0], 0]]
    K2 = mmul(K, K)
    M = ident(4)
    for i in range(3):
        for j in range(3):
            M[i][j] = ((1 if i == j else 0) + s_ * K[i][j] + (1 - c) * K2[i][j]) % P
    return M


def axis_rot(ax, c, s_):
    """textbook right-handed rotation about coordinate axis ax (0,1,2) with the given cos, sin"""
    M = ident(4)
    i1, i2 = (ax + 1) % 3, (ax + 2) % 3
    M[i1][i1], M[i1][i2], M[i2][i1], M[i2][i2] = c, -s_ % P, s_, c
    return M


def unit_vec(rng):
    while True:
        u = [rf(rng) for _ in range(3)]
        r = sq(sum(x * x for x in u) % P)
        if r:
            iv = inv(r)
            return [x * iv % P for x in u]


def flat(A):
    return [x % P for r in A for x in r]


def rows_of(v, r, c, off=0):
    return [[v[off + i * c + j] for j in range(c)] for i in range(r)]


def fmt(xs):
    return " ".join(str(x % P) for x in xs)


REFERENCE_NAME = ("independent python arithmetic mod 2^61-1: Leibniz determinants, Gauss-Jordan inverses/solutions with a different "
                  "pivot rule, schoolbook products, Hamilton product from the i,j,k table, rotation matrix from q v q*")


def reference(line):
    t = line.split()
    op = t[0]
    if op[0] == "f":
        return "ok"
    try:
        v = [int(x) % P for x in t[1:]]
    except ValueError:
        return None
    n = len(v)
    if op in ("m4det", "m3det"):
        k = 4 if op == "m4det" else 3
        return str(leibniz(rows_of(v, k, k))) if n == k * k else None
    if op in ("m4inv", "m3inv", "m4invchk", "m3invchk"):
        k = 4 if op[1] == "4" else 3
        if n != k * k:
            return None
        A = rows_of(v, k, k)
        X = gauss_solve(A, ident(k))
        if X is None:
            return None       # singular: the property does not say what inverse() returns
        return fmt(flat(X)) if op.endswith("inv") else fmt(flat(ident(k)))
    if op in ("m4mul", "m3mul"):
        k = 4 if op == "m4mul" else 3
        return fmt(flat(mmul(rows_of(v, k, k), rows_of(v, k, k, k * k)))) if n == 2 * k * k else None
    if op in ("m4tr", "m3tr"):
        k = 4 if op == "m4tr" else 3
        return fmt(flat(mT(rows_of(v, k, k)))) if n == k * k else None
    if op == "m4v4" and n == 20:
        return fmt(flat(mmul(rows_of(v, 4, 4), [[x] for x in v[16:20]])))
    if op == "m4v3" and n == 19:
        return fmt(flat(mmul(rows_of(v, 4, 4), [[x] for x in v[16:19]] + [[1]]))[:3])
    if op == "m4mod" and n == 19:
        return fmt(flat(mmul(rows_of(v, 4, 4), [[x] for x in v[16:19]] + [[0]]))[:3])
    if op == "m3v3" and n == 12:
        return fmt(flat(mmul(rows_of(v, 3, 3), [[x] for x in v[9:12]])))
    if op == "v3cross" and n == 6:
        a, b = v[:3], v[3:]
        # the vector c with c . w = det[a; b; w] for every w
        return fmt([leibniz([a, b, [1 if k == i else 0 for k in range(3)]]) for i in range(3)])
    if op == "v3dot" and n == 6:
        return str(sum(v[i] * v[3 + i] for i in range(3)) % P)
    if op == "v3lin" and n == 7:
        return fmt([v[i] + v[3 + i] * v[6] - v[3 + i] for i in range(3)])
    if op == "v3len2" and n == 3:
        return str(sum(x * x for x in v) % P)
    if op in ("m4rotaa", "m4rotv", "qfaau") and n in (3, 4):
        ax = v[:3]
        l2 = sum(x * x for x in ax) % P
        if op == "qfaau":
            cs = fake_cs(v[3] * INV2 % P)
            if cs is None:
                return None
            return fmt([cs[0]] + [cs[1] * x for x in ax])      # (cos(t/2), sin(t/2) u): the definition of the axis-angle quaternion
        mroot = pow(l2, (P + 1) // 4, P)
        if mroot == 0 or mroot * mroot % P != l2:
            return None          # zero axis, or |axis|^2 is not a square in the field: no rotation is defined
        ang = v[3] if op == "m4rotaa" else mroot
        cs = fake_cs(ang * INV2 % P)
        if cs is None:
            return None
        im = inv(mroot)
        return fmt(flat(rodrigues([x * im % P for x in ax], (cs[0] * cs[0] - cs[1] * cs[1]) % P, 2 * cs[0] * cs[1] % P)))
    if op == "m4rote" and n == 6:
        M = ident(4)
        for ang, axn in zip(v[:3], v[3:]):
            cs = fake_cs(ang)
            if cs is None:
                return None
            M = mmul(M, axis_rot(axn % 3, cs[0], cs[1]))
        return fmt(flat(M))
    if op == "qmul" and n == 8:
        return fmt(qmul_ref(v[:4], v[4:]))
    if op == "qconj" and n == 4:
        return fmt([v[0], -v[1], -v[2], -v[3]])
    if op == "qlen2" and n == 4:
        return str(sum(x * x for x in v) % P)
    if op == "qdot" and n == 8:
        return str(sum(v[i] * v[4 + i] for i in range(4)) % P)
    if op == "qinv" and n == 4:
        l2 = sum(x * x for x in v) % P
        if l2 == 0:
            return None
        # the inverse is the q' with q q' = 1: solve the 4x4 linear system of left multiplication by q
        L = [[qmul_ref(v, [1 if c == k else 0 for c in range(4)])[r] for k in range(4)] for r in range(4)]
        X = gauss_solve(L, [[1], [0], [0], [0]])
        return fmt(flat(X)) if X is not None else None
    if op in ("qmat", "qrotrt") and n == 4:
        if sum(x * x for x in v) % P != 1:
            return None
        if op == "qrotrt" and any(x == 0 for x in v):
            return None   # a branch of rotation() may legitimately divide by a zero root
        return fmt(flat(qmat_ref(v)))
    if op in ("solve", "mtmul", "mmul") and n >= 3:
        r, c, m = v[0], v[1], v[2]
        if r > 64 or c > 64 or m > 64:
            return None
        if op == "mmul":
            if n != 3 + r * c + c * m:
                return None
            X = mmul(rows_of(v, r, c, 3), rows_of(v, c, m, 3 + r * c)) if c else [[0] * m for _ in range(r)]
            return fmt([r, m] + flat(X))
        if n != 3 + r * c + r * m:
            return None
        A, B = rows_of(v, r, c, 3), rows_of(v, r, m, 3 + r * c)
        if op == "mtmul":
            X = mmul(mT(A), B) if r else [[0] * m for _ in range(c)]
            return fmt([c, m] + flat(X))
        if r == 0 or c == 0 or m == 0:
            return None
        if r == c:
            X = gauss_solve(A, B)
            return fmt([r, m] + flat(X)) if X is not None else None
        At = mT(A)
        X = gauss_solve(mmul(At, A), mmul(At, B))    # normal equations
        return fmt([c, m] + flat(X)) if X is not None else None
    if op == "minv" and n >= 1:
        r = v[0]
        if r > 64 or n != 1 + r * r or r == 0:
            return None
        X = gauss_solve(rows_of(v, r, r, 1), ident(r))
        return fmt([r, r] + flat(X)) if X is not None else None
    return None


# ------------------------------------------------------------------ generators

def rf(rng):
    return rng.randrange(P)


def small(rng):
    return rng.choice([0, 0, 1, 1, 2, 3, P - 1, P - 2, 5, 7]) if rng.random() < 0.8 else rng.randrange(-9, 10) % P


def rand_mat(rng, r, c, kind):
    if kind == "uniform":
        return [[rf(rng) for _ in range(c)] for _ in range(r)]
    if kind == "small":
        return [[small(rng) for _ in range(c)] for _ in range(r)]
    if kind == "sparse":
        return [[(rf(rng) if rng.random() < 0.35 else 0) for _ in range(c)] for _ in range(r)]
    raise ValueError(kind)


def permuted_triangular(rng, n):
    """P * U with U upper triangular non-singular and P a random permutation (never the identity for n >= 2):
    the leading entries are zero and a row exchange is needed at (almost) every step"""
    U = [[(rf(rng) if j > i else 0) for j in range(n)] for i in range(n)]
    for i in range(n):
        U[i][i] = rng.randrange(1, P)
    perm = list(range(n))
    if n >= 2:
        while perm == list(range(n)):
            rng.shuffle(perm)
    return [U[perm[i]] for i in range(n)]


def singular_mat(rng, n):
    if n == 0:
        return []
    A = rand_mat(rng, n, n, "uniform")
    k = rng.randrange(n)
    kind = rng.randrange(3)
    if kind == 0 or n == 1:
        A[k] = [0] * n
    elif kind == 1:
        j = (k + 1 + rng.randrange(n - 1)) % n
        a = rf(rng)
        A[k] = [a * x % P for x in A[j]]
    else:
        for i in range(n):
            A[i][k] = 0
    return A


def needs_exchange(A):
    """does elimination without row exchanges hit a zero pivot?"""
    n = len(A)
    M = [list(r) for r in A]
    for c in range(n):
        if M[c][c] % P == 0:
            return True
        iv = inv(M[c][c])
        for r in range(c + 1, n):
            f = M[r][c] * iv % P
            M[r] = [(x - f * y) % P for x, y in zip(M[r], M[c])]
    return False


def unit_quat(rng):
    while True:
        u = [rf(rng) for _ in range(4)]
        l2 = sum(x * x for x in u) % P
        r = sq(l2)
        if r:
            iv = inv(r)
            return [x * iv % P for x in u]


def dhex(x):
    return struct.pack(">d", float(x)).hex()


def gen_exact(rng, tier):
    cases = []
    N = 150 if tier == "quick" else 10000
    for i in range(N):
        kind = ["uniform", "uniform", "small", "sparse"][i % 4]
        A = rand_mat(rng, 4, 4, kind)
        if i % 7 == 3:
            A = singular_mat(rng, 4)
        if i % 7 == 5:
            A[3] = [0, 0, 0, 1]   # affine
        B = rand_mat(rng, 4, 4, kind)
        a, b = fmt(flat(A)), fmt(flat(B))
        v4 = fmt([rf(rng) for _ in range(4)])
        v3 = fmt([rf(rng) for _ in range(3)])
        AB = fmt(flat(mmul(A, B)))
        cases.append(["m4det " + a, "m4inv " + a, "m4invchk " + a, "m4mul %s %s" % (a, b), "m4det " + b, "m4det " + AB,
                      "m4tr " + a, "m4v4 %s %s" % (a, v4), "m4v3 %s %s" % (a, v3), "m4mod %s %s" % (a, v3), "m4rot " + a])
        A = rand_mat(rng, 3, 3, kind)
        if i % 7 == 3:
            A = singular_mat(rng, 3)
        if i % 7 == 5:
            A[2] = [0, 0, 1]
        B = rand_mat(rng, 3, 3, kind)
        a, b = fmt(flat(A)), fmt(flat(B))
        AB = fmt(flat(mmul(A, B)))
        cases.append(["m3det " + a, "m3inv " + a, "m3invchk " + a, "m3mul %s %s" % (a, b), "m3det " + b, "m3det " + AB,
                      "m3tr " + a, "m3v3 %s %s" % (a, fmt([rf(rng) for _ in range(3)]))])
    # Vec3
    for i in range(N // 2):
        a, b = [rf(rng) for _ in range(3)], [rf(rng) for _ in range(3)]
        if i % 4 == 1:
            a, b = [small(rng) for _ in range(3)], [small(rng) for _ in range(3)]
        cases.append(["v3cross %s %s" % (fmt(a), fmt(b)), "v3dot %s %s" % (fmt(a), fmt(b)), "v3lin %s %s %d" % (fmt(a), fmt(b), rf(rng)), "v3len2 " + fmt(a)])
    # quaternions
    for i in range(N):
        p, q = unit_quat(rng), unit_quat(rng)
        if i % 5 == 1:
            p = [rf(rng) for _ in range(4)]
        if i % 5 == 2:
            q = [small(rng) for _ in range(4)]
        if i % 11 == 3:   # 180-degree rotation (w = 0) and axis-aligned ones
            a, b = rf(rng), rf(rng)
            r = sq((1 - a * a - b * b) % P)
            if r is not None:
                p = [0, a, b, r]
        pq = qmul_ref(p, q)
        P_, Q_ = fmt(p), fmt(q)
        cases.append(["qmat " + P_, "qmat " + Q_, "qmul %s %s" % (P_, Q_), "qmat " + fmt(pq),
                      "m4mul %s %s" % (fmt(flat(qmat_ref(p))), fmt(flat(qmat_ref(q)))) if (sum(x * x for x in p) % P == 1 and sum(x * x for x in q) % P == 1) else "qlen2 " + P_,
                      "qconj " + P_, "qinv " + P_, "qinv " + Q_, "qlen2 " + P_, "qdot %s %s" % (P_, Q_), "qrotrt " + P_, "qrotrt " + Q_,
                      "m4rot " + fmt(flat(qmat_ref(p))) if sum(x * x for x in p) % P == 1 else "qlen2 " + Q_])
    # axis-angle conversions, executed exactly with the stand-ins for cos/sin/acos/atan2 (see harness/c20.cpp)
    for i in range(N):
        u = unit_vec(rng)
        ax = u if i % 3 else [rf(rng) for _ in range(3)]
        if i % 17 == 5:
            ax = [0, 0, 0]
        if i % 17 == 6:
            ax = [0, 0, 0]
            ax[rng.randrange(3)] = rng.choice([1, P - 1, 2])
        ang = rng.choice([rf(rng), rf(rng), 0, 1, small(rng)])
        q = unit_quat(rng)
        if i % 7 == 2:
            q = [rng.choice([1, P - 1]), 0, 0, 0]
        if i % 7 == 4:
            q = [rf(rng) for _ in range(4)]
        if i % 7 == 5:
            q = [0] + unit_vec(rng)
        A_, Q_ = fmt(ax + [ang]), fmt(q)
        cases.append(["qfaa " + A_, "qfaau " + fmt(u + [ang]), "qfrv " + fmt(ax), "m4rotaa " + A_, "m4rotaa " + fmt(u + [ang]), "m4rotv " + fmt(ax),
                      "qangle " + Q_, "qaxang " + Q_, "qaart " + Q_, "m4axang " + fmt(flat(qmat_ref(q))) if sum(x * x for x in q) % P == 1 else "qangle " + Q_,
                      "m4rote %s %d %d %d" % (fmt([rf(rng) for _ in range(3)]), rng.randrange(3), rng.randrange(3), rng.randrange(3))])
    # eulerAngles executed exactly (stand-in trig): matrices composed by rotateE incl. exact locks (angle value 1 has cos = 0,
    # sin = 1; angle value 0 has cos = 1, sin = 0), and arbitrary matrices
    for i in range(N):
        angs = [rng.choice([rf(rng), rf(rng), rf(rng), 0, 1, P - 1, small(rng)]) for _ in range(3)]
        a0 = rng.randrange(3)
        sel1 = rng.randrange(2)
        a1 = (a0 + 1 + sel1) % 3
        a2 = rng.choice([a0, 3 - a0 - a1])
        M = ident(4)
        ok = True
        for ang, axn in zip(angs, (a0, a1, a2)):
            cs = fake_cs(ang)
            if cs is None:
                ok = False
                break
            M = mmul(M, axis_rot(axn, cs[0], cs[1]))
        c = []
        if ok:
            c.append("m4euler %s %d %d %d" % (fmt(flat(M)), a0, sel1, a2))
            c.append("m4euler %s %d %d %d" % (fmt(flat(M)), rng.randrange(3), rng.randrange(2), rng.randrange(3)))
        c.append("m4euler %s %d %d %d" % (fmt(flat(rand_mat(rng, 4, 4, "uniform" if i % 3 else "small"))), rng.randrange(3), rng.randrange(2), rng.randrange(3)))
        cases.append(c)
    # linear systems
    top = 12 if tier == "quick" else 24
    reps = 3 if tier == "quick" else 100
    for n in range(0, top + 1):
        for rep in range(reps if n <= 12 else max(2, reps // 8)):
            for kind in ("uniform", "sparse", "small", "permtri", "singular", "zero00"):
                if kind in ("uniform", "sparse", "small"):
                    A = rand_mat(rng, n, n, kind)
                elif kind == "permtri":
                    A = permuted_triangular(rng, n)
                elif kind == "singular":
                    A = singular_mat(rng, n)
                else:
                    A = rand_mat(rng, n, n, "uniform")
                    for d in range(max(0, n - 1)):
                        if rng.random() < 0.6:
                            A[d][d] = 0
                    if n >= 2:
                        A[0][0] = 0
                m = rng.choice([1, 1, 2, 3])
                B = rand_mat(rng, n, m, "uniform" if kind != "small" else "small")
                c = ["solve %d %d %d %s" % (n, n, m, fmt(flat(A) + flat(B)))]
                if rep == 0 and kind in ("uniform", "permtri", "singular"):
                    c.append("minv %d %s" % (n, fmt(flat(A))))
                if rep == 0 and kind == "uniform":
                    X = gauss_solve(A, B) if n else None
                    if X is not None:
                        c.append("mmul %d %d %d %s" % (n, n, m, fmt(flat(A) + flat(X))))
                cases.append(c)
    # over-determined (least squares through the normal equations) and products
    for i in range(40 if tier == "quick" else 2500):
        c = rng.randrange(1, 9 if tier == "quick" else 13)
        r = c + rng.randrange(1, 5)
        m = rng.choice([1, 1, 2])
        kind = ["uniform", "small", "sparse", "deficient"][i % 4]
        A = rand_mat(rng, r, c, "uniform" if kind == "deficient" else kind)
        if kind == "deficient" and c >= 2:
            for row in A:
                row[c - 1] = row[0]
        B = rand_mat(rng, r, m, "uniform")
        cs = ["solve %d %d %d %s" % (r, c, m, fmt(flat(A) + flat(B))), "mtmul %d %d %d %s" % (r, c, m, fmt(flat(A) + flat(B))),
              "mtmul %d %d %d %s" % (r, c, c, fmt(flat(A) + flat(A)))]
        if i % 5 == 0:
            # consistent system: b = A x0, the least-squares solution is x0 itself
            x0 = rand_mat(rng, c, m, "uniform")
            cs.append("solve %d %d %d %s" % (r, c, m, fmt(flat(A) + flat(mmul(A, x0)))))
        cases.append(cs)
    for i in range(30 if tier == "quick" else 300):
        r, c, m = rng.randrange(0, 7), rng.randrange(0, 7), rng.randrange(0, 5)
        c2 = c if rng.random() < 0.8 else rng.randrange(0, 7)
        A, B = rand_mat(rng, r, c, "uniform"), rand_mat(rng, c2, m, "uniform")
        if c2 == c:
            cases.append(["mmul %d %d %d %s" % (r, c, m, fmt(flat(A) + flat(B)))])
    return cases


ORDERS = ["XYZ", "XZY", "YXZ", "YZX", "ZXY", "ZYX", "XYX", "XZX", "YXY", "YZY", "ZXZ", "ZYZ"]


def fmat(rng, n, kind):
    if kind == "uniform":
        return [[rng.uniform(-1, 1) for _ in range(n)] for _ in range(n)]
    if kind == "scaled":
        s = 10.0 ** rng.randrange(-3, 4)
        return [[s * rng.uniform(-1, 1) for _ in range(n)] for _ in range(n)]
    if kind == "dominant":
        A = [[rng.uniform(-1, 1) for _ in range(n)] for _ in range(n)]
        for i in range(n):
            A[i][i] += n * (1 if rng.random() < 0.5 else -1)
        return A
    if kind == "zerolead":
        A = [[rng.uniform(-1, 1) for _ in range(n)] for _ in range(n)]
        for i in range(n - 1):
            A[i][i] = 0.0
        return A
    if kind == "permtri":
        U = [[(rng.uniform(-1, 1) if j > i else 0.0) for j in range(n)] for i in range(n)]
        for i in range(n):
            U[i][i] = rng.choice([-1, 1]) * rng.uniform(0.5, 2)
        perm = list(range(n))
        rng.shuffle(perm)
        return [U[perm[i]] for i in range(n)]
    if kind == "integer":
        return [[float(rng.randrange(-5, 6)) for _ in range(n)] for _ in range(n)]
    raise ValueError(kind)


def gen_float(rng, tier):
    cases = []
    N = 200 if tier == "quick" else 15000
    kinds = ["uniform", "scaled", "dominant", "zerolead", "permtri", "integer"]
    for i in range(N):
        k = kinds[i % len(kinds)]
        c = ["f4inv " + " ".join(dhex(x) for r in fmat(rng, 4, k) for x in r), "f3inv " + " ".join(dhex(x) for r in fmat(rng, 3, k) for x in r)]
        cases.append(c)
    top = 12
    for n in range(1, top + 1):
        for rep in range(4 if tier == "quick" else 150):
            for k in kinds:
                A = fmat(rng, n, k)
                m = rng.choice([1, 2, 3])
                B = [[rng.uniform(-1, 1) for _ in range(m)] for _ in range(n)]
                cases.append(["fsolve %d %d %d %s" % (n, n, m, " ".join(dhex(x) for x in flatf(A) + flatf(B)))])
    for i in range(40 if tier == "quick" else 800):
        c = rng.randrange(1, 9)
        r = c + rng.randrange(1, 5)
        m = rng.choice([1, 2])
        A = [[rng.uniform(-1, 1) for _ in range(c)] for _ in range(r)]
        B = [[rng.uniform(-1, 1) for _ in range(m)] for _ in range(r)]
        cases.append(["fsolve %d %d %d %s" % (r, c, m, " ".join(dhex(x) for x in flatf(A) + flatf(B)))])
    # rotations: random unit quaternions, a grid over axis/angle, 180-degree and near-identity ones
    qs = []
    for i in range(150 if tier == "quick" else 15000):
        qs.append([rng.gauss(0, 1) for _ in range(4)])
    for w in (0.0, 1e-9, 1e-4, 0.5, 1.0):
        for ax in ((1, 0, 0), (0, 1, 0), (0, 0, 1), (1, 1, 0), (1, 0, 1), (0, 1, 1), (1, 1, 1), (1, -1, 0), (-1, 2, 3), (1, 1e-8, 0)):
            qs.append([w] + list(ax))
            qs.append([-w] + list(ax))
    qs += [[1, 0, 0, 0], [-1, 0, 0, 0], [1, 1e-9, 0, 0], [1, 1e-5, -1e-5, 1e-6], [1, 1e-3, 0, 0]]
    step = 12 if tier == "quick" else 36
    for a in range(0, step + 1):
        ang = -math.pi + 2 * math.pi * a / step
        for ax in ((1, 0, 0), (0, 1, 0), (0, 0, 1), (1, 2, 3), (-2, 1, 0.5)):
            n = math.sqrt(sum(x * x for x in ax))
            qs.append([math.cos(ang / 2)] + [math.sin(ang / 2) * x / n for x in ax])
    # quaternions composed to sit on / next to a gimbal lock of some convention (middle angle = lock + d)
    for i in range(300 if tier == "quick" else 40000):
        if rng.random() < 0.5:
            a0, a1, a2 = rng.sample([0, 1, 2], 3)
            mid = rng.choice([math.pi / 2, -math.pi / 2])
        else:
            a0, a1 = rng.sample([0, 1, 2], 2)
            a2 = a0
            mid = rng.choice([0.0, math.pi])
        mid += rng.choice([0, 0, 1e-9, -1e-9, 1e-8, 3e-8, 1e-7, -1e-7, 1e-6, 1e-5, 1e-4, -1e-4, 3e-4, 5e-4, 1e-3, 2e-3])
        qs.append(qmulf(qmulf(qaxis(a0, rng.uniform(-math.pi, math.pi)), qaxis(a1, mid)), qaxis(a2, rng.uniform(-math.pi, math.pi))))
    # small rotations: angle m*10^-k about random and coordinate axes (w = cos(angle/2) rounds to 1 long before the angle is lost)
    for k in range(1, 9):
        for mm in (1, 2, 4, 7):
            ang = mm * 10.0 ** (-k)
            for ax in ((0, 0, 1), (1, 0, 0), [rng.gauss(0, 1) for _ in range(3)]):
                n = math.sqrt(sum(x * x for x in ax))
                qs.append([math.cos(ang / 2)] + [math.sin(ang / 2) * x / n for x in ax])
    for i in range(0, len(qs), 4):
        cases.append(["frot " + " ".join(dhex(x) for x in q) for q in qs[i:i + 4]])
    # Euler triples for all 24 conventions incl. gimbal lock (middle angle +-pi/2 resp. 0, pi) and its neighbourhood
    special = [0.0, math.pi / 2, -math.pi / 2, math.pi, -math.pi, math.pi / 2 - 1e-4, math.pi / 2 + 1e-7, -math.pi / 2 + 1e-9, 1e-8, math.pi - 1e-6,
               math.pi / 4, -2.5, 3.0, 1.0]
    for o in ORDERS:
        for fx in ("", "*"):
            c = []
            for mid in special:
                a0 = rng.uniform(-math.pi, math.pi)
                a2 = rng.uniform(-math.pi, math.pi)
                c.append("feuler %s%s %s %s %s" % (o, fx, dhex(a0), dhex(mid), dhex(a2)))
            # the band next to the lock: middle angle = lock + m*10^-k and small outer angles
            lock = rng.choice([math.pi / 2, -math.pi / 2]) if o[0] != o[2] else rng.choice([0.0, math.pi])
            for k in range(1, 9):
                mm = rng.choice([1, 2, 4, 7]) * rng.choice([1, -1])
                c.append("feuler %s%s %s %s %s" % (o, fx, dhex(rng.uniform(-math.pi, math.pi)), dhex(lock + mm * 10.0 ** (-k)), dhex(rng.uniform(-math.pi, math.pi))))
                c.append("feuler %s%s %s %s %s" % (o, fx, dhex(mm * 10.0 ** (-k)), dhex(rng.uniform(-1.5, 1.5) if o[0] != o[2] else rng.uniform(0.1, 3.0)), dhex(-3 * 10.0 ** (-k))))
            for rep in range(6 if tier == "quick" else 400):
                c.append("feuler %s%s %s" % (o, fx, " ".join(dhex(rng.uniform(-math.pi, math.pi)) for _ in range(3))))
            c.append("feuler %s%s %s %s %s" % (o, fx, dhex(0.0), dhex(0.0), dhex(0.0)))
            c.append("feuler %s%s %s %s %s" % (o, fx, dhex(math.pi / 2), dhex(math.pi / 2), dhex(math.pi / 2)))
            cases.append(c)
    # rotation vectors
    vs = []
    for k in range(1, 9):
        for mm in (1, 3, 6):
            ax = [rng.gauss(0, 1) for _ in range(3)]
            n = math.sqrt(sum(x * x for x in ax))
            vs.append([mm * 10.0 ** (-k) * x / n for x in ax])
            vs.append([0.0, 0.0, mm * 10.0 ** (-k)])
    vs += [[0.0, 0.0, 0.0], [math.pi, 0, 0], [0, math.pi, 0], [0, 0, -math.pi], [1e-9, 0, 0], [1e-5, 1e-5, 0], [3.0, 0.5, 0.2]]
    for i in range(400 if tier == "quick" else 6000):
        ax = [rng.gauss(0, 1) for _ in range(3)]
        n = math.sqrt(sum(x * x for x in ax)) or 1.0
        ang = rng.choice([rng.uniform(0, math.pi), rng.uniform(0, 1e-3), math.pi - rng.uniform(0, 1e-3), math.pi])
        vs.append([ang * x / n for x in ax])
    for i in range(0, len(vs), 4):
        cases.append(["faxis " + " ".join(dhex(x) for x in v) for v in vs[i:i + 4]])
    return cases


def qmulf(p, q):
    return [p[0] * q[0] - p[1] * q[1] - p[2] * q[2] - p[3] * q[3], p[0] * q[1] + p[1] * q[0] + p[2] * q[3] - p[3] * q[2],
            p[0] * q[2] - p[1] * q[3] + p[2] * q[0] + p[3] * q[1], p[0] * q[3] + p[1] * q[2] - p[2] * q[1] + p[3] * q[0]]


def qaxis(ax, a):
    q = [math.cos(a / 2), 0.0, 0.0, 0.0]
    q[1 + ax] = math.sin(a / 2)
    return q


def flatf(A):
    return [x for r in A for x in r]


def gen(rng, tier):
    return gen_exact(rng, tier) + gen_float(rng, tier)


def nontrivial(case):
    for l in case:
        t = l.split()
        if len(set(t[1:])) >= 2:
            return True
    return False


def distribution(cases):
    ops = {}
    sizes = {}
    exch = sing = ls = lsdef = 0
    for c in cases:
        for l in c:
            t = l.split()
            ops[t[0]] = ops.get(t[0], 0) + 1
            if t[0] == "solve":
                r, cc, m = int(t[1]), int(t[2]), int(t[3])
                key = "%dx%d" % (r, cc) if r != cc else "n=%d" % r
                sizes[key] = sizes.get(key, 0) + 1
                v = [int(x) for x in t[4:]]
                A = rows_of(v, r, cc)
                if r == cc:
                    if r and rank(A) < r:
                        sing += 1
                    elif r and needs_exchange(A):
                        exch += 1
                else:
                    ls += 1
                    if rank(A) < cc:
                        lsdef += 1
            if t[0] == "fsolve":
                key = "float n=%s" % t[1] if t[1] == t[2] else "float LS"
                sizes[key] = sizes.get(key, 0) + 1
    near = {}
    for c in cases:
        for l in c:
            t = l.split()
            try:
                if t[0] == "feuler":
                    mid = struct.unpack(">d", bytes.fromhex(t[3]))[0]
                    d = abs(math.cos(mid)) if t[1][0] != t[1][2] else abs(math.sin(mid))
                    key = "feuler: cos/sin of the middle angle " + ("= 0 (float-exact lock)" if d < 1e-15 else "in [1e%d, 1e%d)" % (math.floor(math.log10(d)), math.floor(math.log10(d)) + 1))
                    near[key] = near.get(key, 0) + 1
                elif t[0] == "faxis":
                    v = [struct.unpack(">d", bytes.fromhex(x))[0] for x in t[1:4]]
                    a = math.sqrt(sum(x * x for x in v))
                    key = "faxis: angle " + ("= 0" if a == 0 else "in [1e%d, 1e%d)" % (math.floor(math.log10(a)), math.floor(math.log10(a)) + 1))
                    near[key] = near.get(key, 0) + 1
                elif t[0] == "frot":
                    q = [struct.unpack(">d", bytes.fromhex(x))[0] for x in t[1:5]]
                    a = 2 * math.atan2(math.sqrt(sum(x * x for x in q[1:])), abs(q[0]))
                    if a < 0.1:
                        key = "frot: angle " + ("= 0" if a == 0 else "in [1e%d, 1e%d)" % (math.floor(math.log10(a)), math.floor(math.log10(a)) + 1))
                        near[key] = near.get(key, 0) + 1
                elif t[0] == "m4euler":
                    near["m4euler (exact, over the prime field)"] = near.get("m4euler (exact, over the prime field)", 0) + 1
            except (ValueError, struct.error, IndexError):
                pass
    return {"ops_by_kind": ops, "solve_sizes": sizes, "small_angle_and_near_lock_cases": dict(sorted(near.items())), "square_systems_needing_row_exchange_without_which_elimination_fails": exch,
            "singular_square_systems(model=impl only)": sing, "overdetermined_systems": ls, "rank_deficient_overdetermined": lsdef}


def oracle(case, impl, model, crash):
    """the property oracle on the implementation alone, used to word the verdict of a shrunk failure"""
    if crash:
        return True, "memory error / abnormal termination: %s" % crash
    lines = ["case"] + list(case)
    for i, l in enumerate(lines):
        if i >= len(impl) or l.startswith("case"):
            continue
        if l.startswith("f"):
            if impl[i] != "ok":
                return True, ("numeric clause violated (float/double result against the long double reference; bound 64*eps for "
                              "every rotation conversion incl. Euler angles at any distance from gimbal lock, c*eps*cond for inverse/solve): " + impl[i])
            continue
        exp = reference(l)
        if exp is not None and impl[i] != exp:
            return True, ("exact clause violated over the prime field 2^61-1: the independent reference (%s) expects %s, "
                          "the library returned %s" % (REFERENCE_NAME.split(":")[0], exp[:120], impl[i][:120]))
    for i, l in enumerate(lines):
        if i < len(impl) and i < len(model) and impl[i] != model[i]:
            return True, ("the library's result differs from the Lean model (%s), whose results the theorems of AslProps/C20.lean "
                          "characterise; no independent reference value exists for this input (e.g. a singular system)" % l.split()[0])
    return False, "no clause of the property is violated by this input"


def obligation_search(ctx):
    """a proof obligation over the regenerated closed forms broke and the generated cases did not exhibit a failing input:
    evaluate the real templates at fresh random field points against the independent references"""
    from lib import core
    from lib.engine import Failure
    rng = ctx["rng"]
    lines = []
    for i in range(1500):
        A, B = rand_mat(rng, 4, 4, "uniform"), rand_mat(rng, 4, 4, "uniform")
        lines += ["m4inv " + fmt(flat(A)), "m4det " + fmt(flat(A)), "m4mul %s %s" % (fmt(flat(A)), fmt(flat(B))), "m4tr " + fmt(flat(A))]
        A, B = rand_mat(rng, 3, 3, "uniform"), rand_mat(rng, 3, 3, "uniform")
        lines += ["m3inv " + fmt(flat(A)), "m3det " + fmt(flat(A)), "m3mul %s %s" % (fmt(flat(A)), fmt(flat(B)))]
        p, q = unit_quat(rng), unit_quat(rng)
        lines += ["qmul %s %s" % (fmt(p), fmt(q)), "qmat " + fmt(p), "qrotrt " + fmt(q), "qinv " + fmt(p),
                  "v3cross %s %s" % (fmt(p[:3]), fmt(q[:3]))]
    impl, crash, err = core.run_impl(ctx["exe"], ["case 0"] + lines, timeout=300)
    for l, o in zip(lines, impl[1:]):
        exp = reference(l)
        if exp is not None and o != exp:
            f = Failure("diverge", [l], ["case", o], ["case", exp],
                        clause="exact clause violated over the prime field: independent reference expects %s" % exp[:160])
            return f
    return None


EXHAUSTIVE = {}

TECHNIQUE = ("Lean 4 theorems over an arbitrary field (ring/field_simp identities on definitions regenerated from the C++ headers; "
             "invariant proof of Gaussian elimination for any pivot choice) + differential correspondence check of the real templates "
             "instantiated over the prime field 2^61-1 + numeric validation of float/double against long double")
LEVEL_TEXT = ("Proved in Lean 4 over an arbitrary field, about definitions REGENERATED from the C++ headers on every run: Matrix4/Matrix3 "
              "det() = Mathlib's determinant, operator* = matrix product, the cofactor matrix of inverse() is the adjugate "
              "(M*adj = adj*M = det*I), M*inverse(M) = inverse(M)*M = I and inverse() = Mathlib's inverse for every non-singular M, "
              "det(AB) = det(A)det(B), transposed/vector products; Quaternion operator^ = Hamilton product of Mathlib's quaternion algebra, "
              "conj/length2/inverse, matrix() acts as q v q*, is orthogonal with det 1 and is multiplicative on unit quaternions; every "
              "branch of Matrix4::rotation() returns q or -q for the matrix of a unit quaternion q when its root is a non-zero square "
              "root, and over every ordered field the branch conditions guarantee that (rotation_correct_ordered); Vec3 cross/dot. "
              "Euler angles: rotateX/Y/Z, rotate(int,T), rotateE and eulerAngles (both const char* wrappers) are regenerated with "
              "cos/sin/atan2/sqrt/PI as an abstract interface; for any such functions with the standard properties (TrigOK, shown "
              "to hold for the real functions) and exact arithmetic, rotateE(eulerAngles(rotateE(r))) = rotateE(r) for EVERY angle "
              "triple r, all 12 axis orders, moving and fixed frames, both away from the gimbal lock (general branch, |cos b| resp. |sin b| > lim) and "
              "exactly on the lock (degenerate branch); eulerAngles reads sin b, c = sqrt(..) = |cos b| and cos b (sin c, cos c) from the "
              "matrix (euler_arguments), and the first angle from M*rotate(a2,-r0). Between threshold and exact lock (c <= lim, last "
              "angle set to 0): the entry holding sin b (cos b) is reproduced exactly and every entry of the row of the first axis and "
              "of the column of the last axis (5 of 9) differs by at most 2c <= 2 lim (euler_nearlock_partial, all 12 orders, both frames). "
              "Axis-angle: fromAxisAngle/fromAxisAngleU/fromAxisAngle(v), angle(), axisAngle(), Matrix4::rotate(axis,angle), rotate(Vec3), "
              "Matrix4::axisAngle() are regenerated too; proved: fromAxisAngleU of a unit axis is a unit quaternion, its matrix is "
              "Rodrigues' matrix I + sin t [u]x + (1-cos t)[u]x^2, Matrix4::rotate(axis,angle) is that matrix about axis/|axis|, and for "
              "every unit quaternion q fromAxisAngle(q.axisAngle()) = +-q (angle-0 branch included) so rotate(M.axisAngle()) = M; "
              "matrix(rotation(M)) = M for EVERY proper rotation matrix M (M*Mt = I, det M = 1; rotation_matrix_full_holds, all four "
              "branches, each under its own guard; rotation_guards_exhaustive: for an arbitrary matrix the guards are exhaustive and the "
              "radicand of the branch taken is >= 1; rotation_branch_sound_so3: each branch alone over any field with 2 != 0; "
              "rotation_unit_so3: the quaternion returned is a unit quaternion); "
              "(AB)t = Bt At, inverse(At) = inverse(A)t, inverse(AB) = inverse(B) inverse(A) for Matrix4 and Matrix3 with the code's own "
              "operations, M*p - M*q = M%(p-q) (points vs vectors, point_vector_transform). These code paths are also "
              "executed exactly over the prime field with stand-ins for cos/sin/acos/atan2 (rational parametrisation of the unit circle) and compared with the model and with "
              "Rodrigues / textbook axis-rotation references. "
              "Proved about the hand-written transcription of solve_/solve/Matrix::inverse (tied to the code by the correspondence "
              "check): for every non-singular n x n system, every number of right-hand sides and EVERY pivot-selection function that "
              "returns a non-zero candidate when one exists, A*solve(A,b) = b; the code's search loop is such a function; the result is "
              "independent of the pivot choice; for non-square A with non-singular AtA the result satisfies the normal equations. "
              "The correspondence check instantiates the real templates over the prime field 2^61-1 and compares every result with the "
              "compiled Lean model and with independent python references (systems up to 12x12, thorough 20x20, incl. ones that need row "
              "exchanges at every step). Floating-point clauses (residual <= c*eps*cond for inverse/det/solve/least squares; quaternion "
              "<-> matrix <-> axis-angle <-> 24 Euler conventions incl. gimbal lock and 180 degrees) are validated numerically against "
              "long double references only.")
LEVEL_NOTE = ("Trusted: Lean kernel; the expression translator tools/props/c20_translate.py; harness/c20.cpp (prime-field scalar class, long "
              "double references). Numeric bounds used: square systems |x^-x| <= c eps cond(A) |x| (backward stability of elimination with partial pivoting); "
              "over-determined systems, solved through the normal equations G = AtA: |x^-x| <= c eps (cond(G)|x| + |G^-1| | |A|^T|b| |), "
              "the standard perturbation bound of the normal-equations method (the second term is the rounding error of forming Atb; "
              "without it a right-hand side nearly orthogonal to the columns of A raised a false alarm, corpus/C20/lstsq_orthogonal_rhs.ops). "
              "NOT theorems (numeric validation by the correspondence harness only, because Lean's kernel has no IEEE "
              "floats): all float/double residual bounds; "
              "rotation_matrix_full is now proved (rotation_matrix_full_holds; AslProofs/RotSO3.lean: the 24 rank-one minors of the "
              "4x4 matrix of radicands and entry sums/differences are constant-coefficient combinations of the SO(3) relations). "
              "The axis-angle and Euler theorems assume "
              "TrigOK/TrigAA/TrigDouble/CmpStd for cos/sin/atan2/sqrt (proved for the real functions in examples); "
              "the behaviour of eulerAngles() when the cosine (sine) c of the middle angle is in (0, lim] (there the last angle is set to 0, "
              "an approximation; the bound error <= 2c is proved for 5 of the 9 entries only, see below, the rest validated numerically); numeric tolerance: 64*eps for every rotation conversion "
              "(quaternion, matrix, axis-angle at every angle incl. 10^-k; Euler angles of rotateE-built and of quaternion-built "
              "matrices at every distance from the lock incl. lock +- 10^-k). The Euler "
              "theorems are about exact arithmetic with abstract trigonometric functions; the branch threshold lim is a parameter (>= 0). "
              "The Euler/rotate/axis-angle definitions are tied to the source by the translator AND executed exactly by the model driver "
              "against the real templates over the prime field with the stand-in trigonometry (ops m4rote, m4euler, m4rotaa, qaxang, ...; "
              "a differential test of the arithmetic and branch structure, the stand-ins are not real trigonometry); the real "
              "eulerAngles()/rotateE() are exercised numerically as well. PARTLY proved: the band 0 < c <= lim of eulerAngles between "
              "euler_roundtrip (lim < c) and euler_roundtrip_locked (c = 0), where the last angle is set to 0: euler_nearlock_partial "
              "bounds 5 of the 9 entries by 2 lim; the entrywise bound for all 9 entries (euler_nearlock_full, lim <= 1/2) is a def, "
              "NOT proved: the other four entries depend on the first extracted angle, read by atan2 from a point at distance "
              "sqrt(1 - c^2 sin^2 g) from the origin (numerically the ratio error/c stays <= 2). "
              "The solve_ model is hand-written (K-tied), not regenerated; its inner jj-loop is modelled as the simultaneous row update "
              "it is equal to. Theorems assume field laws: they say nothing about rounding. Two defects were found and repaired in "
              "/repo (fix: commits ddac4e2 Matrix3 operator*, 59184ad eulerAngles near gimbal lock); two more reported by an independent hunt "
              "and fixed (f6f3b25 angle()/axisAngle() lost small rotations, 3b6cfb4 eulerAngles locked formulas used up to 1e-3 rad from "
              "the lock -- the latter introduced by the threshold of 59184ad, which the then 8*sqrt(eps) tolerance of this check "
              "accepted; 635f2db eulerAngles amplified element noise by 1/cos(middle angle) near the lock, which the then eps*cond "
              "tolerance accepted although rotation -> angles -> rotation is well-conditioned); witnesses in corpus/C20.")
