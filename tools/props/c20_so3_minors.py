"""C20 helper (not a plugin): regenerates lean/AslProofs/RotSO3.lean.

The 24 rank-one minors Q[k][i]*Q[k][j] = Q[k][k]*Q[i][j] of the 4x4 matrix of rotation()'s radicands and entry
sums/differences are constant-coefficient combinations of the 21 SO(3) relations; the coefficients are found here by exact
Gaussian elimination over Fractions and emitted as `linear_combination` proofs, which Lean re-checks with `ring`.
Usage: python3 tools/props/c20_so3_minors.py [out.lean]   (default: print to stdout)
"""
import sys, io, contextlib
SOLVE = r'''
from fractions import Fraction as Fr
from itertools import product
# polynomial: dict monomial(tuple sorted of var indices) -> Fr ; var (i,j) -> i*3+j
def P(d=None): return dict(d or {})
def add(p,q,c=1):
    r=dict(p)
    for m,v in q.items():
        r[m]=r.get(m,0)+c*v
        if r[m]==0: del r[m]
    return r
def mul(p,q):
    r={}
    for m1,v1 in p.items():
        for m2,v2 in q.items():
            m=tuple(sorted(m1+m2)); r[m]=r.get(m,0)+v1*v2
            if r[m]==0: del r[m]
    return r
def A(i,j): return {((i,j),):Fr(1)}
def const(c): return {():Fr(c)} if c else {}
def lin(*terms):
    r={}
    for c,p in terms: r=add(r,p,Fr(c))
    return r
rels=[]  # (name, poly lhs-rhs)
for i in range(3):
    for j in range(i,3):
        p={}
        for k in range(3): p=add(p,mul(A(i,k),A(j,k)))
        rels.append((f"h.R{i}{j}",add(p,const(1 if i==j else 0),-1)))
for i in range(3):
    for j in range(i,3):
        p={}
        for k in range(3): p=add(p,mul(A(k,i),A(k,j)))
        rels.append((f"h.C{i}{j}",add(p,const(1 if i==j else 0),-1)))
for i in range(3):
    for j in range(3):
        i1,i2=(i+1)%3,(i+2)%3; j1,j2=(j+1)%3,(j+2)%3
        cof=add(mul(A(i1,j1),A(i2,j2)),mul(A(i1,j2),A(i2,j1)),-1)
        rels.append((f"h.F{i}{j}",add(A(i,j),cof,-1)))
def lean_rel(name):
    return name
t=lin((1,A(0,0)),(1,A(1,1)),(1,A(2,2)))
one=const(1)
# Q matrix index 0=w,1=x,2=y,3=z
Q={}
Q[0,0]=add(one,t)
Q[1,1]=lin((1,one),(1,A(0,0)),(-1,A(1,1)),(-1,A(2,2)))
Q[2,2]=lin((1,one),(-1,A(0,0)),(1,A(1,1)),(-1,A(2,2)))
Q[3,3]=lin((1,one),(-1,A(0,0)),(-1,A(1,1)),(1,A(2,2)))
Q[0,1]=lin((1,A(2,1)),(-1,A(1,2)))
Q[0,2]=lin((1,A(0,2)),(-1,A(2,0)))
Q[0,3]=lin((1,A(1,0)),(-1,A(0,1)))
Q[1,2]=lin((1,A(0,1)),(1,A(1,0)))
Q[2,3]=lin((1,A(1,2)),(1,A(2,1)))
Q[1,3]=lin((1,A(2,0)),(1,A(0,2)))
for (i,j) in list(Q): Q[j,i]=Q[i,j]
def solve(target):
    monos=set(target)
    for _,p in rels: monos|=set(p)
    monos=sorted(monos)
    n=len(rels)
    M=[[p.get(m,Fr(0)) for _,p in rels]+[target.get(m,Fr(0))] for m in monos]
    # gaussian
    piv=[];r=0
    for c in range(n):
        pr=None
        for k in range(r,len(M)):
            if M[k][c]!=0: pr=k;break
        if pr is None: continue
        M[r],M[pr]=M[pr],M[r]
        v=M[r][c]; M[r]=[x/v for x in M[r]]
        for k in range(len(M)):
            if k!=r and M[k][c]!=0:
                f=M[k][c]; M[k]=[x-f*y for x,y in zip(M[k],M[r])]
        piv.append(c); r+=1
    for k in range(r,len(M)):
        if M[k][n]!=0: return None
    sol=[Fr(0)]*n
    for k,c in enumerate(piv): sol[c]=M[k][n]
    return sol
names={0:'w',1:'x',2:'y',3:'z'}
def qs(i,j,src):
    return src[(i,j)]
# lean source text of Q entries
src={}
src[0,0]="(1 + (a 0 0 + a 1 1 + a 2 2))"
src[1,1]="(1 + a 0 0 - a 1 1 - a 2 2)"
src[2,2]="(1 + a 1 1 - a 2 2 - a 0 0)"
src[3,3]="(1 + a 2 2 - a 0 0 - a 1 1)"
src[0,1]="(a 2 1 - a 1 2)"; src[0,2]="(a 0 2 - a 2 0)"; src[0,3]="(a 1 0 - a 0 1)"
src[1,2]="(a 0 1 + a 1 0)"; src[2,3]="(a 1 2 + a 2 1)"; src[1,3]="(a 2 0 + a 0 2)"
for (i,j) in list(src): src[j,i]=src[i,j]
out=[]
for k in range(4):
    others=[i for i in range(4) if i!=k]
    for ii,i in enumerate(others):
        for j in others[ii:]:
            target=add(mul(Q[k,i],Q[k,j]),mul(Q[k,k],Q[i,j]),-1)
            s=solve(target)
            assert s is not None,(k,i,j)
            lc=" + ".join(f"({c}) * {nm}" for c,(nm,_) in zip(s,rels) if c!=0)
            out.append(f"theorem minor{k}_{i}{j} (a : Nat → Nat → K) (h : SO3Rel a) :\n    {src[k,i]} * {src[k,j]} = {src[k,k]} * {src[i,j]} := by\n  linear_combination {lc}\n")
print("\n".join(out))
'''
buf = io.StringIO()
with contextlib.redirect_stdout(buf):
    exec(SOLVE)
minors = buf.getvalue()

L=[]
TAIL='''
section ordered
variable {R : Type} [Field R] [LinearOrder R] [IsStrictOrderedRing R]

/-- guard coverage of `rotation()` for an ARBITRARY matrix over an ordered field: the four guards are exhaustive, exactly
one branch is taken, and the radicand of the branch taken is at least 1 (the four radicands sum to 4, the first is below 1
when the trace is negative, and the guards pick the largest of the other three) -/
theorem rotation_selects_gen (C : Cmp R) (hlt : ∀ a b, C.lt a b = decide (a < b)) (a : Nat → Nat → R) :
    (Gen.M4.rotation (fld R) C a = Gen.M4.rotBranch0 (fld R) a (C.sqrt (Gen.M4.rotRadicand0 (fld R) a)) ∧ 1 ≤ Gen.M4.rotRadicand0 (fld R) a) ∨
    (Gen.M4.rotation (fld R) C a = Gen.M4.rotBranch1 (fld R) a (C.sqrt (Gen.M4.rotRadicand1 (fld R) a)) ∧ 1 ≤ Gen.M4.rotRadicand1 (fld R) a) ∨
    (Gen.M4.rotation (fld R) C a = Gen.M4.rotBranch2 (fld R) a (C.sqrt (Gen.M4.rotRadicand2 (fld R) a)) ∧ 1 ≤ Gen.M4.rotRadicand2 (fld R) a) ∨
    (Gen.M4.rotation (fld R) C a = Gen.M4.rotBranch3 (fld R) a (C.sqrt (Gen.M4.rotRadicand3 (fld R) a)) ∧ 1 ≤ Gen.M4.rotRadicand3 (fld R) a) := by
  simp only [Gen.M4.rotation, hlt, Gen.M4.rotRadicand0, Gen.M4.rotRadicand1, Gen.M4.rotRadicand2, Gen.M4.rotRadicand3,
    fld_add, fld_sub, fld_lit, Nat.cast_zero, Nat.cast_one]
  by_cases c0 : a 0 0 + a 1 1 + a 2 2 < 0
  · by_cases c1a : a 0 0 < a 1 1
    · by_cases c1b : a 1 1 < a 2 2
      · by_cases c2 : a 0 0 < a 2 2
        · right; right; left
          simp only [c0, c1a, c1b, c2, decide_true, decide_false, Bool.not_true, Bool.not_false, Bool.and_false, Bool.false_eq_true, if_false, if_true, true_and]
          linarith
        · right; right; right
          simp only [c0, c1a, c1b, c2, decide_true, decide_false, Bool.not_true, Bool.not_false, Bool.and_false, Bool.false_eq_true, if_false, if_true, true_and]
          linarith
      · right; left
        simp only [c0, c1a, c1b, decide_true, decide_false, Bool.not_true, Bool.not_false, Bool.and_true, Bool.false_eq_true, if_false, if_true, true_and]
        linarith
    · by_cases c2 : a 0 0 < a 2 2
      · right; right; left
        simp only [c0, c1a, c2, decide_true, decide_false, Bool.not_true, Bool.false_and, Bool.false_eq_true, if_false, if_true, true_and]
        linarith
      · right; right; right
        simp only [c0, c1a, c2, decide_true, decide_false, Bool.not_true, Bool.false_and, Bool.false_eq_true, if_false, if_true, true_and]
        linarith
  · left
    simp only [c0, decide_false, Bool.not_false, if_true, true_and]
    linarith

end ordered
'''
L.append('''import AslProofs.Matrix
import Mathlib.LinearAlgebra.Matrix.Adjugate
/-!
# C20 — `Matrix4_::rotation()` on every proper rotation matrix (not only on the image of `Quaternion_::matrix`)

`SO3Rel a` collects the polynomial relations satisfied by the entries of a matrix with `a·aᵀ = 1`, `det a = 1`
(row and column orthonormality, and `a = cofactor matrix of a`).  The symmetric 4×4 matrix `Q(a)` whose entries are the
four radicands of `rotation()` (diagonal) and the sums/differences `a i j ± a j i` the branches read (off-diagonal) has
rank one on SO(3): all 2×2 minors `Q k i * Q k j = Q k k * Q i j` vanish (`minor*`, each a constant-coefficient
combination of the relations).  Hence each branch, dividing by the root of *its own* diagonal entry, returns a
quaternion `q` with `4 q_i q_j = Q i j`, and `Quaternion_::matrix` is linear in those products.

This file is written by `tools/props/c20_so3_minors.py` (it finds the coefficients of the `minor*` proofs by exact Gaussian
elimination; Lean re-checks each with `ring`).
-/
set_option linter.unusedSimpArgs false
namespace AslProofs.RotSO3
open AslModel AslProofs.Matrix

variable {K : Type} [Field K]

/-- the polynomial relations between the entries of a proper rotation matrix -/
structure SO3Rel (a : Nat → Nat → K) : Prop where''')
for i in range(3):
    for j in range(i,3):
        L.append(f"  R{i}{j} : a {i} 0 * a {j} 0 + a {i} 1 * a {j} 1 + a {i} 2 * a {j} 2 = {1 if i==j else 0}")
for i in range(3):
    for j in range(i,3):
        L.append(f"  C{i}{j} : a 0 {i} * a 0 {j} + a 1 {i} * a 1 {j} + a 2 {i} * a 2 {j} = {1 if i==j else 0}")
for i in range(3):
    for j in range(3):
        i1,i2=(i+1)%3,(i+2)%3; j1,j2=(j+1)%3,(j+2)%3
        L.append(f"  F{i}{j} : a {i} {j} = a {i1} {j1} * a {i2} {j2} - a {i1} {j2} * a {i2} {j1}")
L.append('''
/-- an orthogonal matrix of determinant one satisfies the relations -/
theorem so3_rel (a : Nat → Nat → K) (ho : toM3 a * (toM3 a).transpose = 1) (hd : (toM3 a).det = 1) : SO3Rel a := by
  have hc : (toM3 a).transpose * toM3 a = 1 := mul_eq_one_comm.mp ho
  have hadj : (toM3 a).adjugate = (toM3 a).transpose := by
    calc (toM3 a).adjugate = ((toM3 a).transpose * toM3 a) * (toM3 a).adjugate := by rw [hc, Matrix.one_mul]
      _ = (toM3 a).transpose * (toM3 a * (toM3 a).adjugate) := by rw [Matrix.mul_assoc]
      _ = (toM3 a).transpose := by rw [Matrix.mul_adjugate, hd, one_smul, Matrix.mul_one]
  rw [Matrix.adjugate_fin_three] at hadj
  constructor''')
for i in range(3):
    for j in range(i,3):
        L.append(f"  · have := congrFun (congrFun ho {i}) {j}\n    simp [Matrix.mul_apply, Fin.sum_univ_succ, toM3] at this\n    linear_combination this")
for i in range(3):
    for j in range(i,3):
        L.append(f"  · have := congrFun (congrFun hc {i}) {j}\n    simp [Matrix.mul_apply, Fin.sum_univ_succ, toM3] at this\n    linear_combination this")
for i in range(3):
    for j in range(3):
        L.append(f"  · have := congrFun (congrFun hadj {j}) {i}\n    simp [toM3] at this\n    linear_combination -this")
L.append('')
L.append(minors)
L.append('''/-- `Quaternion_::matrix` is linear in the products `q_i q_j` -/
theorem matrix_of_products (a : Nat → Nat → K) (q : Quat K) (h2 : (2 : K) ≠ 0)
    (hxx : 4 * (q.x * q.x) = 1 + a 0 0 - a 1 1 - a 2 2) (hyy : 4 * (q.y * q.y) = 1 + a 1 1 - a 2 2 - a 0 0)
    (hzz : 4 * (q.z * q.z) = 1 + a 2 2 - a 0 0 - a 1 1)
    (hxy : 4 * (q.x * q.y) = a 0 1 + a 1 0) (hyz : 4 * (q.y * q.z) = a 1 2 + a 2 1) (hxz : 4 * (q.x * q.z) = a 2 0 + a 0 2)
    (hwx : 4 * (q.w * q.x) = a 2 1 - a 1 2) (hwy : 4 * (q.w * q.y) = a 0 2 - a 2 0) (hwz : 4 * (q.w * q.z) = a 1 0 - a 0 1) :
    toM3 (Gen.Q.matrix (fld K) q) = toM3 a := by
  ext i j
  fin_cases i <;> fin_cases j <;> simp [toM3, Gen.Q.matrix, ofRows] <;> apply mul_left_cancel₀ h2
  · linear_combination (-1) * hyy + (-1) * hzz
  · linear_combination hxy - hwz
  · linear_combination hxz + hwy
  · linear_combination hxy + hwz
  · linear_combination (-1) * hxx + (-1) * hzz
  · linear_combination hyz - hwx
  · linear_combination hxz - hwy
  · linear_combination hyz + hwx
  · linear_combination (-1) * hxx + (-1) * hyy

theorem prod_div (u v c r : K) (h0 : r ≠ 0) (h2 : (2 : K) ≠ 0) (k : u * v = (r * r) * c) :
    4 * ((u * (1 / 2 / r)) * (v * (1 / 2 / r))) = c := by
  have e : 4 * ((u * (1 / 2 / r)) * (v * (1 / 2 / r))) = (u * v) * (4 * ((1 / 2 / r) * (1 / 2 / r))) := by ring
  rw [e, k]
  field_simp
  ring

theorem prod_half (u r : K) (h0 : r ≠ 0) (h2 : (2 : K) ≠ 0) : 4 * ((1 / 2 * r) * (u * (1 / 2 / r))) = u := by
  field_simp
  ring

theorem prod_sq (r : K) (h2 : (2 : K) ≠ 0) : 4 * ((1 / 2 * r) * (1 / 2 * r)) = r * r := by
  field_simp
  ring
''')
order=[(1,1),(2,2),(3,3),(1,2),(2,3),(1,3),(0,1),(0,2),(0,3)]
branch_of_k={0:0,2:1,3:2,1:3}
for k,b in sorted(branch_of_k.items(), key=lambda kv: kv[1]):
    L.append(f'''/-- branch {b} of `rotation()` on a proper rotation matrix: with `r` a non-zero root of the branch's radicand, the quaternion
returned has the matrix it was computed from -/
theorem branch{b}_so3 (a : Nat → Nat → K) (h : SO3Rel a) (h2 : (2 : K) ≠ 0) (r : K)
    (hr : r * r = Gen.M4.rotRadicand{b} (fld K) a) (h0 : r ≠ 0) :
    toM3 (Gen.Q.matrix (fld K) (Gen.M4.rotBranch{b} (fld K) a r)) = toM3 a := by
  simp only [Gen.M4.rotRadicand{b}, fld_add, fld_sub, fld_lit, Nat.cast_one] at hr
  apply matrix_of_products a _ h2 <;>
    simp only [Gen.M4.rotBranch{b}, fld_add, fld_sub, fld_mul, fld_div, fld_half]''')
    for (i,j) in order:
        if i!=k and j!=k:
            L.append(f"  · have e := prod_div {src[k,i]} {src[k,j]} {src[i,j]} r h0 h2 (by rw [hr]; exact minor{k}_{i}{j} a h)\n    linear_combination e")
        elif i==k and j==k:
            L.append(f"  · have e := prod_sq r h2\n    linear_combination e + hr")
        else:
            o=j if i==k else i
            L.append(f"  · have e := prod_half {src[k,o]} r h0 h2\n    linear_combination e")
    L.append('')

for k,b in sorted(branch_of_k.items(), key=lambda kv: kv[1]):
    L.append(f"""/-- branch {b} on a proper rotation matrix returns a UNIT quaternion (the four radicands sum to 4) -/
theorem branch{b}_unit (a : Nat → Nat → K) (h : SO3Rel a) (h2 : (2 : K) ≠ 0) (r : K)
    (hr : r * r = Gen.M4.rotRadicand{b} (fld K) a) (h0 : r ≠ 0) :
    UnitQuat (Gen.M4.rotBranch{b} (fld K) a r) := by
  simp only [Gen.M4.rotRadicand{b}, fld_add, fld_sub, fld_lit, Nat.cast_one] at hr
  have h4 : (4 : K) ≠ 0 := by
    have : (4 : K) = 2 * 2 := by norm_num
    rw [this]; exact mul_ne_zero h2 h2
  unfold UnitQuat
  simp only [Gen.M4.rotBranch{b}, fld_add, fld_sub, fld_mul, fld_div, fld_half]
  apply mul_left_cancel₀ h4""")
    terms=[]
    for i in range(4):
        if i==k:
            L.append(f"  have e{i} := prod_sq r h2")
        else:
            L.append(f"  have e{i} := prod_div {src[k,i]} {src[k,i]} {src[i,i]} r h0 h2 (by rw [hr]; exact minor{k}_{i}{i} a h)")
    L.append("  linear_combination e0 + e1 + e2 + e3 + hr")
    L.append('')
L.append(TAIL)
L.append("end AslProofs.RotSO3")
TEXT = "\n".join(L) + "\n"
if len(sys.argv) > 1:
    open(sys.argv[1], 'w').write(TEXT)
else:
    sys.stdout.write(TEXT)
