"""C20 — G translator: closed-form arithmetic of Matrix4.h / Matrix3.h / Quaternion.h -> lean/Gen/*.lean

A small recursive-descent parser for the C++ arithmetic expressions used in these headers
(`+ - * /`, unary minus, parentheses, `a[i][j]`, `B(i, j)`, `at(i, j)`, member access `q.w`, integer
literals, `T(1)`, `(T)0.5`, `sqrt(..)`) and a matcher for the few statement shapes around them.  Anything
that is not recognised raises TranslateError (never a default).  The output is written against the
law-free scalar interface `AslModel.Fld` / `AslModel.Cmp` in prefix form (`F.add x y`), so the compiled
driver evaluates exactly the expressions of the source over the prime field and the theorems in
`AslProps/C20.lean` are re-checked against what the source says now.
"""
import re

from lib import cparse
from lib.engine import TranslateError

TOK = re.compile(r"\s*(\d+\.\d+f?|\d+|[A-Za-z_]\w*|&&|>=|<=|[-+*/()\[\],.<>])")


def strip_comments(s):
    s = re.sub(r"/\*.*?\*/", " ", s, flags=re.S)
    s = re.sub(r"//[^\n]*", " ", s)
    return s


def tokenize(s):
    s = s.strip()
    out = []
    i = 0
    while i < len(s):
        m = TOK.match(s, i)
        if not m:
            raise TranslateError("cannot tokenize %r" % s[i:i + 30])
        out.append(m.group(1))
        i = m.end()
        while i < len(s) and s[i].isspace():
            i += 1
    return out


class Parser:
    def __init__(self, toks):
        self.t = toks
        self.i = 0

    def peek(self):
        return self.t[self.i] if self.i < len(self.t) else None

    def next(self):
        x = self.peek()
        if x is None:
            raise TranslateError("unexpected end of expression")
        self.i += 1
        return x

    def expect(self, x):
        y = self.next()
        if y != x:
            raise TranslateError("expected %r, found %r" % (x, y))

    def done(self):
        return self.i == len(self.t)

    # condition := comparison ('&&' comparison)*
    def cond(self):
        c = self.comparison()
        while self.peek() == "&&":
            self.next()
            c = ("and", c, self.comparison())
        return c

    def comparison(self):
        l = self.expr()
        op = self.next()
        if op not in (">=", "<=", "<", ">"):
            raise TranslateError("comparison operator expected, found %r" % op)
        return ("cmp", op, l, self.expr())

    def expr(self):
        e = self.term()
        while self.peek() in ("+", "-"):
            op = self.next()
            e = ("bin", op, e, self.term())
        return e

    def term(self):
        e = self.unary()
        while self.peek() in ("*", "/"):
            op = self.next()
            e = ("bin", op, e, self.unary())
        return e

    def unary(self):
        if self.peek() == "-":
            self.next()
            return ("neg", self.unary())
        # C cast (T)x
        if self.peek() == "(" and self.i + 2 < len(self.t) and self.t[self.i + 1] == "T" and self.t[self.i + 2] == ")":
            self.i += 3
            return self.unary()
        return self.postfix()

    def postfix(self):
        e = self.primary()
        while True:
            p = self.peek()
            if p == "[":
                self.next()
                i = self.expr()
                self.expect("]")
                self.expect("[")
                j = self.expr()
                self.expect("]")
                e = ("idx", e, i, j)
            elif p == "(" and e[0] == "var":
                self.next()
                args = []
                if self.peek() != ")":
                    args.append(self.expr())
                    while self.peek() == ",":
                        self.next()
                        args.append(self.expr())
                self.expect(")")
                e = ("call", e[1], args)
            elif p == ".":
                self.next()
                e = ("mem", e, self.next())
            else:
                return e

    def primary(self):
        x = self.next()
        if re.fullmatch(r"\d+", x):
            return ("num", int(x))
        if re.fullmatch(r"\d+\.\d+f?", x):
            if x in ("0.5", "0.5f"):
                return ("half",)
            raise TranslateError("unsupported floating literal " + x)
        if x == "(":
            e = self.expr()
            self.expect(")")
            return e
        if re.fullmatch(r"[A-Za-z_]\w*", x):
            return ("var", x)
        raise TranslateError("unexpected token %r" % x)


def parse_expr(s):
    p = Parser(tokenize(s))
    e = p.expr()
    if not p.done():
        raise TranslateError("trailing tokens in expression %r" % s[:60])
    return e


def parse_cond(s):
    p = Parser(tokenize(s))
    e = p.cond()
    if not p.done():
        raise TranslateError("trailing tokens in condition %r" % s[:60])
    return e


def split_top(s, sep=","):
    """split at top-level separators (outside parentheses / brackets)"""
    out, depth, cur = [], 0, ""
    for ch in s:
        if ch in "([":
            depth += 1
        elif ch in ")]":
            depth -= 1
        if ch == sep and depth == 0:
            out.append(cur)
            cur = ""
        else:
            cur += ch
    out.append(cur)
    return [x.strip() for x in out]


class Env:
    """how names of one C++ member function map to Lean terms"""

    def __init__(self, mats=None, scalars=None, structs=None, idx=()):
        self.mats = mats or {}        # C name of a matrix (`a`, `B`, `at`, `m`) -> Lean function name
        self.scalars = scalars or {}  # C scalar name -> Lean term
        self.structs = structs or {}  # C struct variable -> (Lean term, allowed fields)
        self.idx = set(idx)           # loop variables usable as indices


def emit_index(e, env):
    if e[0] == "num":
        return str(e[1])
    if e[0] == "var" and e[1] in env.idx:
        return e[1]
    raise TranslateError("unsupported index expression %r" % (e,))


def emit(e, env):
    k = e[0]
    if k == "num":
        return "(F.lit %d)" % e[1]
    if k == "half":
        return "F.half"
    if k == "var":
        if e[1] in env.scalars:
            return env.scalars[e[1]]
        raise TranslateError("unknown scalar %r" % e[1])
    if k == "idx":
        b = e[1]
        if b[0] == "var" and b[1] in env.mats:
            return "(%s %s %s)" % (env.mats[b[1]], emit_index(e[2], env), emit_index(e[3], env))
        raise TranslateError("unknown array %r" % (b,))
    if k == "call":
        name, args = e[1], e[2]
        if name in env.mats and len(args) == 2:
            return "(%s %s %s)" % (env.mats[name], emit_index(args[0], env), emit_index(args[1], env))
        if name == "T" and len(args) == 1:
            return emit(args[0], env)
        if name == "sqrt" and len(args) == 1:
            return "(C.sqrt %s)" % emit(args[0], env)
        if name == "fabs" and len(args) == 1:
            return "(C.abs %s)" % emit(args[0], env)
        if name in ("cos", "sin", "asin", "acos") and len(args) == 1:
            return "(T.%s %s)" % (name, emit(args[0], env))
        if name == "atan2" and len(args) == 2:
            return "(T.atan2 %s %s)" % (emit(args[0], env), emit(args[1], env))
        raise TranslateError("unsupported call %s/%d" % (name, len(args)))
    if k == "mem":
        b = e[1]
        if b[0] == "var" and b[1] in env.structs and e[2] in env.structs[b[1]][1]:
            return "%s.%s" % (env.structs[b[1]][0], e[2])
        raise TranslateError("unsupported member access %r" % (e,))
    if k == "neg":
        return "(F.neg %s)" % emit(e[1], env)
    if k == "bin":
        op = {"+": "add", "-": "sub", "*": "mul", "/": "div"}[e[1]]
        return "(F.%s %s %s)" % (op, emit(e[2], env), emit(e[3], env))
    raise TranslateError("unsupported node %r" % (k,))


def emit_cond(c, env):
    if c[0] == "and":
        return "(%s && %s)" % (emit_cond(c[1], env), emit_cond(c[2], env))
    if c[0] == "cmp":
        l, r = emit(c[2], env), emit(c[3], env)
        return {"<": "(C.lt %s %s)" % (l, r), ">": "(C.lt %s %s)" % (r, l),
                ">=": "(!(C.lt %s %s))" % (l, r), "<=": "(!(C.lt %s %s))" % (r, l)}[c[1]]
    raise TranslateError("unsupported condition %r" % (c,))


def norm(s):
    return re.sub(r"\s+", " ", strip_comments(s)).strip()


def must(rx, s, what):
    m = re.fullmatch(rx, s, flags=re.S)
    if not m:
        raise TranslateError("%s: unexpected shape: %s" % (what, s[:160]))
    return m


def body_of(src, header_rx, what):
    try:
        b = cparse.find_function(src, header_rx)
    except TranslateError:
        raise TranslateError("cannot locate " + what)
    return norm(b)[1:-1].strip()


def rows_lean(exprs, n, env):
    rows = []
    for i in range(n):
        rows.append("[" + ",\n     ".join(emit(parse_expr(x), env) for x in exprs[i * n:(i + 1) * n]) + "]")
    return "ofRows F.zero [\n    " + ",\n    ".join(rows) + "]"


def check_ctor(src, cls, n, defaults):
    """the element-wise constructor stores argument k at a[k/n][k%n]; returns the default values of the trailing args"""
    m = re.search(cls + r"\(\s*(T a\w+(?:\s*=\s*\d+)?\s*(?:,\s*T a\w+(?:\s*=\s*\d+)?\s*)*)\)\s*\{([^}]*)\}", strip_comments(src))
    if not m:
        raise TranslateError("element-wise constructor of %s not found" % cls)
    params = [p.strip() for p in m.group(1).split(",")]
    if len(params) != n * n:
        raise TranslateError("%s constructor has %d parameters" % (cls, len(params)))
    names, defs = [], {}
    for k, p in enumerate(params):
        mm = must(r"T (a\w+)(?:\s*=\s*(\d+))?", p, cls + " ctor parameter")
        names.append(mm.group(1))
        if mm.group(2) is not None:
            defs[k] = int(mm.group(2))
    assigns = [x.strip() for x in m.group(2).split(";") if x.strip()]
    want = ["a[%d][%d]=%s" % (k // n, k % n, names[k]) for k in range(n * n)]
    if [re.sub(r"\s+", "", a) for a in assigns] != want:
        raise TranslateError("%s constructor does not store its arguments row-major" % cls)
    if defs != defaults:
        raise TranslateError("%s constructor defaults changed: %r" % (cls, defs))
    return defs


LOOP2 = r"for \(int i = 0; i ?< ?%d; i\+\+\) for \(int j = 0; j ?< ?%d; j\+\+\) "


def matrix_class(src, cls, n, qual):
    """definitions shared by Matrix4_ (members defined out of class: qual=True) and Matrix3_"""
    out = []
    A = Env(mats={"a": "a", "B": "b", "at": "a"}, idx=("i", "j"))
    # operator*(const M& B)
    b = body_of(src, cls + r" operator\*\(const " + cls + r"& B\) const\s*\{", cls + "::operator*(matrix)")
    m = must(cls + r" C; " + (LOOP2 % (n, n)) + r"C\(i, j\) = (.*); return C;", b, cls + "::operator*(matrix)")
    out.append("/-- `%s::operator*(const %s& B)`: entry `(i, j)` of the product -/\n"
               "def mulEntry (F : Fld K) (a b : Nat → Nat → K) (i j : Nat) : K :=\n  %s\n" % (cls, cls, emit(parse_expr(m.group(1)), A)))
    out.append("def mul (F : Fld K) (a b : Nat → Nat → K) : Nat → Nat → K := fun i j => mulEntry F a b i j\n")
    # operator*=(T t)
    b = body_of(src, cls + r"& operator\*=\(T t\)\s*\{", cls + "::operator*=(T)")
    must((LOOP2 % (n, n)) + r"a\[i\]\[j\] \*= t; return \*this;", b, cls + "::operator*=(T)")
    out.append("/-- `%s::operator*=(T t)`: `a[i][j] *= t` -/\n"
               "def scale (F : Fld K) (a : Nat → Nat → K) (t : K) : Nat → Nat → K := fun i j => F.mul (a i j) t\n" % cls)
    # det
    hdr = (r"T " + cls + r"<T>::det\(\) const\s*\{") if qual else r"T det\(\) const\s*\{"
    b = body_of(src, hdr, cls + "::det")
    m = must(r"return (.*);", b, cls + "::det")
    out.append("/-- `%s::det()` -/\ndef det (F : Fld K) (a : Nat → Nat → K) : K :=\n  %s\n" % (cls, emit(parse_expr(m.group(1)), A)))
    # inverse
    hdr = (cls + r"<T> " + cls + r"<T>::inverse\(\) const\s*\{") if qual else (cls + r" inverse\(\) const\s*\{")
    b = body_of(src, hdr, cls + "::inverse")
    m = must(r"T d = (.*?); " + cls + r"(?:<T>)? m\((.*)\); m \*= T\(1\) / d; return m;", b, cls + "::inverse")
    out.append("/-- `T d = …` in `%s::inverse()` -/\ndef invD (F : Fld K) (a : Nat → Nat → K) : K :=\n  %s\n" % (cls, emit(parse_expr(m.group(1)), A)))
    ex = split_top(m.group(2))
    if len(ex) != n * n:
        raise TranslateError("%s::inverse: %d constructor arguments" % (cls, len(ex)))
    out.append("/-- `%s m(…)` in `inverse()` (the adjugate), constructor arguments are row-major -/\n"
               "def invAdj (F : Fld K) (a : Nat → Nat → K) : Nat → Nat → K :=\n  %s\n" % (cls, rows_lean(ex, n, A)))
    out.append("/-- `%s::inverse()`: `m *= T(1) / d; return m` -/\n"
               "def inverse (F : Fld K) (a : Nat → Nat → K) : Nat → Nat → K :=\n  scale F (invAdj F a) (F.div (F.lit 1) (invD F a))\n" % cls)
    # transposed
    b = body_of(src, cls + r" transposed\(\) const\s*\{", cls + "::transposed")
    m = must(r"return " + cls + r"\((.*)\);", b, cls + "::transposed")
    ex = split_top(m.group(1))
    if len(ex) != n * n:
        raise TranslateError("%s::transposed: %d constructor arguments" % (cls, len(ex)))
    out.append("/-- `%s::transposed()` -/\ndef transposed (F : Fld K) (a : Nat → Nat → K) : Nat → Nat → K :=\n  %s\n" % (cls, rows_lean(ex, n, A)))
    return out


def vec_method(src, header_rx, what, ret, nargs, env):
    b = body_of(src, header_rx, what)
    m = must(r"return " + ret + r"\((.*)\);", b, what)
    ex = split_top(m.group(1))
    if len(ex) != nargs:
        raise TranslateError("%s: %d components" % (what, len(ex)))
    return [emit(parse_expr(x), env) for x in ex]


HEADER = "/- GENERATED by tools/props/c20_translate.py from %s — do not edit -/\nimport AslModel.Fld\nnamespace %s\nopen AslModel\nvariable {K : Type}\n\n"


def check_vec_ctor(src, cls, fields):
    s = strip_comments(src)
    params = ", ".join("T " + f for f in fields)
    inits = ", ".join("%s(%s)" % (f, f) for f in fields)
    if not re.search(re.escape(cls) + r"\(" + re.escape(params) + r"\)\s*:\s*" + re.escape(inits).replace(r"\ ", r"\s*") + r"\s*\{\}", s):
        raise TranslateError("component constructor of %s not found / changed" % cls)


def rotation_def(src):
    """Matrix4_<T>::rotation(): a chain of if / else-if / else, each `r = sqrt(E); s = (T)0.5 / r; return Quaternion_<T>(…)`.
    Emits per branch the radicand and the returned quaternion as a function of the root `r`, and `rotation` itself."""
    b = body_of(src, r"Quaternion_<T> Matrix4_<T>::rotation\(\) const\s*\{", "Matrix4_::rotation")
    m = must(r"T t = (.*?), s, r; (if.*)", b, "Matrix4_::rotation")
    env = Env(mats={"at": "a"}, scalars={})
    trace = emit(parse_expr(m.group(1)), env)
    env.scalars["t"] = trace
    defs = []
    chain = ["/-- `Matrix4_<T>::rotation()` (matrix → quaternion, four branches; `r = sqrt(radicand)`) -/",
             "def rotation (F : Fld K) (C : Cmp K) (a : Nat → Nat → K) : Quat K :="]
    rest = m.group(2).strip()
    nbranch = 0
    while rest:
        mm = re.match(r"(else if|if|else)\b", rest)
        if not mm:
            raise TranslateError("Matrix4_::rotation: unexpected statement: " + rest[:80])
        kw = mm.group(1)
        pos = len(kw)
        cond = None
        if kw != "else":
            j = rest.index("(", pos)
            if rest[pos:j].strip():
                raise TranslateError("Matrix4_::rotation: unexpected text before condition")
            depth, k = 0, j
            while True:
                if rest[k] == "(":
                    depth += 1
                elif rest[k] == ")":
                    depth -= 1
                    if depth == 0:
                        break
                k += 1
            cond = rest[j + 1:k]
            pos = k + 1
        j = rest.index("{", pos)
        if rest[pos:j].strip():
            raise TranslateError("Matrix4_::rotation: unexpected text before block: " + rest[pos:j])
        k = rest.index("}", j)
        block = rest[j + 1:k].strip()
        rest = rest[k + 1:].strip()
        bm = must(r"r = sqrt\((.*?)\); s = (.*?); return Quaternion_<T>\((.*)\);", block, "Matrix4_::rotation branch")
        benv = Env(mats={"at": "a"}, scalars={"t": trace})
        rad = emit(parse_expr(bm.group(1)), benv)
        benv.scalars["r"] = "r"
        s_e = emit(parse_expr(bm.group(2)), benv)
        benv.scalars["s"] = "s"
        comps = split_top(bm.group(3))
        if len(comps) != 4:
            raise TranslateError("Matrix4_::rotation: quaternion with %d components" % len(comps))
        q = "Quat.mk " + " ".join(emit(parse_expr(c), benv) for c in comps)
        defs.append("/-- branch %d of `rotation()`: the argument of `sqrt` -/\ndef rotRadicand%d (F : Fld K) (a : Nat → Nat → K) : K :=\n  %s\n"
                    "/-- branch %d of `rotation()`: the quaternion returned when `r` is the computed root -/\n"
                    "def rotBranch%d (F : Fld K) (a : Nat → Nat → K) (r : K) : Quat K :=\n  let s := %s\n  %s\n"
                    % (nbranch, nbranch, rad, nbranch, nbranch, s_e, q))
        call = "rotBranch%d F a (C.sqrt (rotRadicand%d F a))" % (nbranch, nbranch)
        if cond is not None:
            chain.append("  %s %s then %s" % ("if" if nbranch == 0 else "else if", emit_cond(parse_cond(cond), env), call))
        else:
            chain.append("  else " + call)
            if rest:
                raise TranslateError("Matrix4_::rotation: statements after the final else")
        nbranch += 1
    if nbranch != 4:
        raise TranslateError("Matrix4_::rotation: expected 4 branches, found %d" % nbranch)
    return defs + ["\n".join(chain) + "\n"]


def euler_defs(m4, v3):
    """rotateX/Y/Z, rotate(int, T), rotateE(r, a0, a1, a2), eulerAngles(a0, a1, a2) and the `const char*` wrappers.
    cos/sin/asin/acos/atan2/PI become the law-free `Trig` interface; the statement skeleton is matched literally."""
    out = []
    E = Env(scalars={"angle": "angle"})
    for ax in "XYZ":
        b = body_of(m4, r"static Matrix4_ rotate%s\(T angle\)\s*\{" % ax, "Matrix4_::rotate" + ax)
        m = must(r"return Matrix4_<T>\((.*)\);", b, "Matrix4_::rotate" + ax)
        ex = split_top(m.group(1))
        if len(ex) != 16:
            raise TranslateError("Matrix4_::rotate%s: %d constructor arguments" % (ax, len(ex)))
        out.append("/-- `Matrix4_::rotate%s(T angle)` -/\ndef rotate%s (F : Fld K) (T : Trig K) (angle : K) : Nat → Nat → K :=\n  %s\n" % (ax, ax, rows_lean(ex, 4, E)))
    b = body_of(m4, r"static Matrix4_ identity\(\)\s*\{", "Matrix4_::identity")
    m = must(r"return Matrix4_<T>\((.*)\);", b, "Matrix4_::identity")
    ex = split_top(m.group(1))
    if len(ex) != 16:
        raise TranslateError("Matrix4_::identity: %d constructor arguments" % len(ex))
    out.append("/-- `Matrix4_::identity()` -/\ndef identity (F : Fld K) : Nat → Nat → K :=\n  %s\n" % rows_lean(ex, 4, Env()))
    b = body_of(m4, r"static Matrix4_ rotate\(int axis, T angle\)\s*\{", "Matrix4_::rotate(int, T)")
    must(r"switch \(axis\) \{ case 0: case 'X': return rotateX\(angle\); case 1: case 'Y': return rotateY\(angle\); "
         r"case 2: case 'Z': return rotateZ\(angle\); \} return identity\(\);", b, "Matrix4_::rotate(int, T)")
    out.append("/-- `Matrix4_::rotate(int axis, T angle)`: `0`/`'X'`, `1`/`'Y'`, `2`/`'Z'`, anything else the identity -/\n"
               "def rotateAxis (F : Fld K) (T : Trig K) (axis : Nat) (angle : K) : Nat → Nat → K :=\n"
               "  if axis = 0 ∨ axis = 88 then rotateX F T angle\n  else if axis = 1 ∨ axis = 89 then rotateY F T angle\n"
               "  else if axis = 2 ∨ axis = 90 then rotateZ F T angle\n  else identity F\n")
    b = body_of(m4, r"static Matrix4_ rotateE\(const Vec3_<T>& r, int a0, int a1, int a2\)\s*\{", "Matrix4_::rotateE(r, a0, a1, a2)")
    must(r"return rotate\(a0, r\.x\) \* rotate\(a1, r\.y\) \* rotate\(a2, r\.z\);", b, "Matrix4_::rotateE(r, a0, a1, a2)")
    out.append("/-- `Matrix4_::rotateE(r, a0, a1, a2)` = `rotate(a0, r.x) * rotate(a1, r.y) * rotate(a2, r.z)` -/\n"
               "def rotateE (F : Fld K) (T : Trig K) (r : V3 K) (a0 a1 a2 : Nat) : Nat → Nat → K :=\n"
               "  mul F (mul F (rotateAxis F T a0 r.x) (rotateAxis F T a1 r.y)) (rotateAxis F T a2 r.z)\n")
    # eulerAngles(int, int, int)
    b = body_of(m4, r"Vec3_<T> Matrix4_<T>::eulerAngles\(int a0, int a1, int a2\) const\s*\{", "Matrix4_::eulerAngles")
    m = must(r"T r0, r1, r2; const T lim = sizeof\(T\) == sizeof\(float\) \? T\([0-9.e-]+\) : T\([0-9.e-]+\); "
             r"if \(a0 != a2\) \{ T s = \(a1 - a0 \+ 3\) % 3 == 1 \? -1\.0f : 1\.0f; T c = (.*?); r1 = (.*?); "
             r"r0 = \((.*?)\) \? (.*?) : T\(0\); Matrix4_ m = \*this \* rotate\(a2, -r0\); r2 = (.*?); "
             r"return Vec3_<T>\(r2, r1, r0\); \} "
             r"else \{ int k = 3 - a0 - a1; T s = \(a1 - a0 \+ 3\) % 3 == 2 \? -1\.0f : 1\.0f; T c = (.*?); r1 = (.*?); "
             r"r0 = \((.*?)\) \? (.*?) : T\(0\); Matrix4_ m = \*this \* rotate\(a0, -r0\); r2 = (.*?); \} "
             r"return Vec3_<T>\(r2, r1, r0\);", b, "Matrix4_::eulerAngles")
    g = m.groups()
    A = Env(mats={"at": "a", "m": "m"}, scalars={"s": "s", "c": "c", "lim": "lim", "PI": "T.pi"}, idx=("a0", "a1", "a2", "k"))
    ex = lambda x: emit(parse_expr(x), A)
    cd = lambda x: emit_cond(parse_cond(x), A)
    out.append(
        "/-- `Matrix4_<T>::eulerAngles(int a0, int a1, int a2)` for axis indices in {0,1,2}; `lim` is the gimbal-lock threshold on the\n"
        "cosine (sine) `c` of the middle angle (`T(2e-6)` for float, `T(4e-15)` for double in the source); `m` is\n"
        "`*this * rotate(a2, -r0)` (the last rotation removed), from which the first angle is read -/\n"
        "def eulerAngles (F : Fld K) (C : Cmp K) (T : Trig K) (lim : K) (a : Nat → Nat → K) (a0 a1 a2 : Nat) : V3 K :=\n"
        "  if a0 ≠ a2 then\n"
        "    let s := if (a1 + 3 - a0) %% 3 = 1 then F.neg (F.lit 1) else F.lit 1\n"
        "    let c := %s\n    let r1 := %s\n"
        "    let r0 := if %s then %s else F.lit 0\n"
        "    let m := mul F a (rotateAxis F T a2 (F.neg r0))\n"
        "    let r2 := %s\n    V3.mk r2 r1 r0\n"
        "  else\n"
        "    let k := 3 - a0 - a1\n"
        "    let s := if (a1 + 3 - a0) %% 3 = 2 then F.neg (F.lit 1) else F.lit 1\n"
        "    let c := %s\n    let r1 := %s\n"
        "    let r0 := if %s then %s else F.lit 0\n"
        "    let m := mul F a (rotateAxis F T a0 (F.neg r0))\n"
        "    let r2 := %s\n    V3.mk r2 r1 r0\n"
        % (ex(g[0]), ex(g[1]), cd(g[2]), ex(g[3]), ex(g[4]), ex(g[5]), ex(g[6]), cd(g[7]), ex(g[8]), ex(g[9])))
    # const char* wrappers: "XYZ" = moving axes, "XYZ*" = fixed axes (reversed order, reversed components)
    if not re.search(r"Vec3_<T> zyx\(\) const \{ return Vec3_<T>\(z, y, x\); \}", norm(v3)):
        raise TranslateError("Vec3_::zyx changed")
    b = body_of(m4, r"static Matrix4_ rotateE\(const Vec3_<T>& r, const char\* a\)\s*\{", "Matrix4_::rotateE(r, const char*)")
    must(r"if \(strlen\(a\) < 3\) return Matrix4_::identity\(\); return \(a\[3\] == '\*'\) \? "
         r"rotateE\(r\.zyx\(\), a\[2\] - 'X', a\[1\] - 'X', a\[0\] - 'X'\) : rotateE\(r, a\[0\] - 'X', a\[1\] - 'X', a\[2\] - 'X'\);",
         b, "Matrix4_::rotateE(r, const char*)")
    b = body_of(m4, r"Vec3_<T> eulerAngles\(const char\* a\) const\s*\{", "Matrix4_::eulerAngles(const char*)")
    must(r"if \(strlen\(a\) < 3\) return Vec3_<T>\(0, 0, 0\); return \(a\[3\] == '\*'\) \? "
         r"eulerAngles\(a\[2\] - 'X', a\[1\] - 'X', a\[0\] - 'X'\)\.zyx\(\) : eulerAngles\(a\[0\] - 'X', a\[1\] - 'X', a\[2\] - 'X'\);",
         b, "Matrix4_::eulerAngles(const char*)")
    out.append("/-- `Vec3_::zyx()` -/\ndef zyx (r : V3 K) : V3 K := V3.mk r.z r.y r.x\n")
    out.append("/-- `rotateE(r, \"ABC\")` / `rotateE(r, \"ABC*\")` with `a0 a1 a2` the indices of the letters `A B C` -/\n"
               "def rotateEs (F : Fld K) (T : Trig K) (r : V3 K) (a0 a1 a2 : Nat) (fixed : Bool) : Nat → Nat → K :=\n"
               "  if fixed then rotateE F T (zyx r) a2 a1 a0 else rotateE F T r a0 a1 a2\n")
    out.append("/-- `eulerAngles(\"ABC\")` / `eulerAngles(\"ABC*\")` -/\n"
               "def eulerAngless (F : Fld K) (C : Cmp K) (T : Trig K) (lim : K) (a : Nat → Nat → K) (a0 a1 a2 : Nat) (fixed : Bool) : V3 K :=\n"
               "  if fixed then zyx (eulerAngles F C T lim a a2 a1 a0) else eulerAngles F C T lim a a0 a1 a2\n")
    return out


def axis_defs(qh, m4, v3):
    """axis-angle conversions: Vec3_::length, Quaternion_::fromAxisAngle(axis, angle) / fromAxisAngleU / fromAxisAngle(v),
    angle(), axisAngle(), Matrix4_::rotate(axis, angle), rotate(axisAngle), Matrix4_::axisAngle().
    Statement skeletons are matched literally, scalar sub-expressions go through the expression parser."""
    out = []
    V = Env(scalars={"x": "a.x", "y": "a.y", "z": "a.z"})
    b = body_of(v3, r"T length\(\) const\s*\{", "Vec3_::length")
    m = must(r"return (sqrt\(.*\));", b, "Vec3_::length")
    out.append("/-- `Vec3_::length()` -/\ndef length (F : Fld K) (C : Cmp K) (a : V3 K) : K :=\n  %s\n" % emit(parse_expr(m.group(1)), V))
    b = body_of(v3, r"friend Vec3_ operator\*\(T r, const Vec3_& b\)\s*\{", "operator*(T, Vec3_)")
    must(r"return b\*r;", b, "operator*(T, Vec3_)")
    if not re.search(r"Quaternion_\(T w, const Vec3_<T>& v\) : w\(w\), x\(v\.x\), y\(v\.y\), z\(v\.z\) \{\}", norm(qh)):
        raise TranslateError("Quaternion_(T w, const Vec3_<T>& v) changed")
    out.append("/-- `Quaternion_(T w, const Vec3_<T>& v)` -/\ndef ofScalarVec (w : K) (v : V3 K) : Quat K := Quat.mk w v.x v.y v.z\n")
    A = Env(scalars={"angle": "angle", "m": "m", "w": "p.w", "a": "a", "PI": "T.pi"})
    ex = lambda x: emit(parse_expr(x), A)
    cd = lambda x: emit_cond(parse_cond(x), A)
    b = body_of(qh, r"static Quaternion_ fromAxisAngle\(const Vec3_<T>& axis, T angle\)\s*\{", "Quaternion_::fromAxisAngle(axis, angle)")
    m = must(r"T m = axis\.length\(\); return Quaternion_\((.*?), \(\(m != 0\) \? (.*?) : 0\) \* axis\);", b, "Quaternion_::fromAxisAngle(axis, angle)")
    out.append("/-- `Quaternion_::fromAxisAngle(axis, angle)`; `r * axis` is `axis * r` (`friend operator*(T, Vec3_)`) -/\n"
               "def fromAxisAngle (F : Fld K) (C : Cmp K) (T : Trig K) (axis : V3 K) (angle : K) : Quat K :=\n"
               "  let m := length F C axis\n"
               "  ofScalarVec %s (Gen.V3.smul F axis (if C.eqz m then F.lit 0 else %s))\n" % (ex(m.group(1)), ex(m.group(2))))
    b = body_of(qh, r"static Quaternion_ fromAxisAngleU\(const Vec3_<T>& axis, T angle\)\s*\{", "Quaternion_::fromAxisAngleU")
    m = must(r"return Quaternion_\((cos\(.*?\)), (sin\(.*?\)) \* axis\);", b, "Quaternion_::fromAxisAngleU")
    out.append("/-- `Quaternion_::fromAxisAngleU(axis, angle)` (axis of length one) -/\n"
               "def fromAxisAngleU (F : Fld K) (T : Trig K) (axis : V3 K) (angle : K) : Quat K :=\n"
               "  ofScalarVec %s (Gen.V3.smul F axis %s)\n" % (ex(m.group(1)), ex(m.group(2))))
    b = body_of(qh, r"static Quaternion_ fromAxisAngle\(const Vec3_<T>& v\)\s*\{", "Quaternion_::fromAxisAngle(v)")
    must(r"return fromAxisAngle\(v, v\.length\(\)\);", b, "Quaternion_::fromAxisAngle(v)")
    out.append("/-- `Quaternion_::fromAxisAngle(v)` (rotation vector) -/\n"
               "def fromRotVec (F : Fld K) (C : Cmp K) (T : Trig K) (v : V3 K) : Quat K :=\n  fromAxisAngle F C T v (length F C v)\n")
    b = body_of(qh, r"T angle\(\) const\s*\{", "Quaternion_::angle")
    m = must(r"T a = (.*?); return (.*?) \? a : (.*?);", b, "Quaternion_::angle")
    g = m.groups()
    Aq = Env(scalars={"w": "p.w", "x": "p.x", "y": "p.y", "z": "p.z", "a": "a", "PI": "T.pi"})
    out.append("/-- `Quaternion_::angle()` -/\ndef angle (F : Fld K) (C : Cmp K) (T : Trig K) (p : Quat K) : K :=\n"
               "  let a := %s\n  if %s then a else %s\n"
               % (emit(parse_expr(g[0]), Aq), emit_cond(parse_cond(g[1]), Aq), emit(parse_expr(g[2]), Aq)))
    b = body_of(qh, r"Vec3_<T> axisAngle\(\) const\s*\{", "Quaternion_::axisAngle")
    must(r"Vec3_<T> v\(x, y, z\); T k = v\.length\(\); return \(k == 0\) \? Vec3_<T>\(0, 0, 0\) : v \* \(angle\(\) / k\);", b, "Quaternion_::axisAngle")
    out.append("/-- `Quaternion_::axisAngle()` -/\ndef axisAngle (F : Fld K) (C : Cmp K) (T : Trig K) (p : Quat K) : V3 K :=\n"
               "  let v := V3.mk p.x p.y p.z\n  let k := length F C v\n"
               "  if C.eqz k then V3.mk (F.lit 0) (F.lit 0) (F.lit 0) else Gen.V3.smul F v (F.div (angle F C T p) k)\n")
    b = body_of(m4, r"inline Matrix4_<T> Matrix4_<T>::rotate\(const Vec3_<T>& axis, T angle\)\s*\{", "Matrix4_::rotate(axis, angle)")
    must(r"return Quaternion_<T>::fromAxisAngle\(axis, angle\)\.matrix\(\);", b, "Matrix4_::rotate(axis, angle)")
    out.append("/-- `Matrix4_::rotate(const Vec3_<T>& axis, T angle)` -/\n"
               "def rotateAA (F : Fld K) (C : Cmp K) (T : Trig K) (axis : V3 K) (angle : K) : Nat → Nat → K :=\n"
               "  Gen.Q.matrix F (fromAxisAngle F C T axis angle)\n")
    b = body_of(m4, r"static Matrix4_ rotate\(const Vec3_<T>& axisAngle\)\s*\{", "Matrix4_::rotate(axisAngle)")
    must(r"return rotate\(axisAngle, axisAngle\.length\(\)\);", b, "Matrix4_::rotate(axisAngle)")
    out.append("/-- `Matrix4_::rotate(const Vec3_<T>& axisAngle)` -/\n"
               "def rotateVec (F : Fld K) (C : Cmp K) (T : Trig K) (v : V3 K) : Nat → Nat → K :=\n  rotateAA F C T v (length F C v)\n")
    b = body_of(m4, r"inline Vec3_<T> Matrix4_<T>::axisAngle\(\) const\s*\{", "Matrix4_::axisAngle")
    must(r"return rotation\(\)\.axisAngle\(\);", b, "Matrix4_::axisAngle")
    out.append("/-- `Matrix4_::axisAngle()` -/\n"
               "def matAxisAngle (F : Fld K) (C : Cmp K) (T : Trig K) (a : Nat → Nat → K) : V3 K :=\n  axisAngle F C T (Gen.M4.rotation F C a)\n")
    return out


def translate(repo):
    m4 = cparse.read(repo, "include/asl/Matrix4.h").replace("\r\n", "\n")
    m3 = cparse.read(repo, "include/asl/Matrix3.h").replace("\r\n", "\n")
    qh = cparse.read(repo, "include/asl/Quaternion.h").replace("\r\n", "\n")
    v3 = cparse.read(repo, "include/asl/Vec3.h").replace("\r\n", "\n")
    v4 = cparse.read(repo, "include/asl/Vec4.h").replace("\r\n", "\n")
    files = {}

    # ---------------- Matrix4
    check_ctor(m4, "Matrix4_", 4, {12: 0, 13: 0, 14: 0, 15: 1})
    check_vec_ctor(v3, "Vec3_", ["x", "y", "z"])
    check_vec_ctor(v4, "Vec4_", ["x", "y", "z", "w"])
    check_vec_ctor(qh, "Quaternion_", ["w", "x", "y", "z"])
    out = matrix_class(m4, "Matrix4_", 4, True)
    A = Env(mats={"a": "a"}, structs={"p": ("p", ("x", "y", "z", "w"))})
    c = vec_method(m4, r"Vec4_<T> operator\*\(const Vec4_<T>& p\) const\s*\{", "Matrix4_::operator*(Vec4)", r"Vec4_<T>", 4, A)
    out.append("/-- `Matrix4_::operator*(const Vec4_<T>& p)` -/\ndef mulVec4 (F : Fld K) (a : Nat → Nat → K) (p : V4 K) : V4 K :=\n  V4.mk %s\n" % "\n    ".join(c))
    A = Env(mats={"a": "a"}, structs={"p": ("p", ("x", "y", "z"))})
    c = vec_method(m4, r"Vec3_<T> operator\*\(const Vec3_<T>& p\) const\s*\{", "Matrix4_::operator*(Vec3)", r"Vec3_<T>", 3, A)
    out.append("/-- `Matrix4_::operator*(const Vec3_<T>& p)` (affine transform of a point) -/\ndef mulVec3 (F : Fld K) (a : Nat → Nat → K) (p : V3 K) : V3 K :=\n  V3.mk %s\n" % "\n    ".join(c))
    c = vec_method(m4, r"Vec3_<T> operator%\(const Vec3_<T>& p\) const\s*\{", "Matrix4_::operator%(Vec3)", r"Vec3_<T>", 3, A)
    out.append("/-- `Matrix4_::operator%%(const Vec3_<T>& p)` (3x3 block times vector) -/\ndef modVec3 (F : Fld K) (a : Nat → Nat → K) (p : V3 K) : V3 K :=\n  V3.mk %s\n" % "\n    ".join(c))
    out.extend(rotation_def(m4))
    # three modules, so that a change in one group of members does not invalidate the proofs about the others
    files["Gen/Matrix4MulGen.lean"] = (HEADER % ("include/asl/Matrix4.h (operator*)", "Gen.M4")) + "\n".join(out[:2]) + "\nend Gen.M4\n"
    hdr = HEADER.replace("import AslModel.Fld\n", "import AslModel.Fld\nimport Gen.Matrix4MulGen\n")
    files["Gen/Matrix4Gen.lean"] = (hdr % ("include/asl/Matrix4.h", "Gen.M4")) + "\n".join(out[2:]) + "\nend Gen.M4\n"
    files["Gen/EulerGen.lean"] = (hdr % ("include/asl/Matrix4.h (rotateX/Y/Z, rotate, rotateE, eulerAngles)", "Gen.M4")) + \
        "\n".join(euler_defs(m4, v3)) + "\nend Gen.M4\n"

    # ---------------- Matrix3
    check_ctor(m3, "Matrix3_", 3, {6: 0, 7: 0, 8: 1})
    out = matrix_class(m3, "Matrix3_", 3, False)
    A = Env(mats={"a": "a"}, structs={"v": ("v", ("x", "y", "z"))})
    c = vec_method(m3, r"Vec3_<T> operator\*\(const Vec3_<T>& v\) const\s*\{", "Matrix3_::operator*(Vec3)", r"Vec3_<T>", 3, A)
    out.append("/-- `Matrix3_::operator*(const Vec3_<T>& v)` -/\ndef mulVec3 (F : Fld K) (a : Nat → Nat → K) (v : V3 K) : V3 K :=\n  V3.mk %s\n" % "\n    ".join(c))
    files["Gen/Matrix3Gen.lean"] = (HEADER % ("include/asl/Matrix3.h", "Gen.M3")) + "\n".join(out) + "\nend Gen.M3\n"

    # ---------------- Quaternion
    out = []
    Q = Env(scalars={"w": "p.w", "x": "p.x", "y": "p.y", "z": "p.z", "t": "t"}, structs={"q": ("q", ("w", "x", "y", "z"))})
    b = body_of(qh, r"Matrix4_<T> matrix\(\) const\s*\{", "Quaternion_::matrix")
    m = must(r"return Matrix4_<T>\((.*)\); ?", b, "Quaternion_::matrix")
    ex = split_top(m.group(1))
    if len(ex) != 12:
        raise TranslateError("Quaternion_::matrix: %d constructor arguments (12 expected, last row defaulted)" % len(ex))
    ex = ex + ["0", "0", "0", "1"]   # the defaults verified by check_ctor above
    out.append("/-- `Quaternion_::matrix()`: 12 explicit arguments, last row from the constructor defaults `0 0 0 1` -/\n"
               "def matrix (F : Fld K) (p : Quat K) : Nat → Nat → K :=\n  %s\n" % rows_lean(ex, 4, Q))

    def qmethod(header_rx, what, name, doc, params):
        c = vec_method(qh, header_rx, what, r"Quaternion_", 4, Q)
        out.append("/-- %s -/\ndef %s (F : Fld K) %s : Quat K :=\n  Quat.mk %s\n" % (doc, name, params, "\n    ".join(c)))

    qmethod(r"Quaternion_ operator\^\(const Quaternion_& q\) const\s*\{", "Quaternion_::operator^", "mul",
            "`Quaternion_::operator^(const Quaternion_& q)` (Hamilton product `this * q`)", "(p q : Quat K)")
    qmethod(r"Quaternion_ conj\(\) const\s*\{", "Quaternion_::conj", "conj", "`Quaternion_::conj()`", "(p : Quat K)")
    qmethod(r"Quaternion_ operator-\(\) const\s*\{", "Quaternion_::operator-", "neg", "`Quaternion_::operator-()`", "(p : Quat K)")
    qmethod(r"Quaternion_ operator\*\(T t\) const\s*\{", "Quaternion_::operator*(T)", "smul", "`Quaternion_::operator*(T t)`", "(p : Quat K) (t : K)")
    b = body_of(qh, r"T length2\(\) const\s*\{", "Quaternion_::length2")
    m = must(r"return (.*);", b, "Quaternion_::length2")
    out.append("/-- `Quaternion_::length2()` -/\ndef length2 (F : Fld K) (p : Quat K) : K :=\n  %s\n" % emit(parse_expr(m.group(1)), Q))
    b = body_of(qh, r"T operator\*\(const Quaternion_& q\) const\s*\{", "Quaternion_::operator*(Quaternion)")
    m = must(r"return (.*);", b, "Quaternion_::operator*(Quaternion)")
    out.append("/-- `Quaternion_::operator*(const Quaternion_& q)` (dot product) -/\ndef dot (F : Fld K) (p q : Quat K) : K :=\n  %s\n" % emit(parse_expr(m.group(1)), Q))
    b = body_of(qh, r"Quaternion_ operator/\(T t\) const\s*\{", "Quaternion_::operator/(T)")
    must(r"return \*this \* \(1 / t\);", b, "Quaternion_::operator/(T)")
    b = body_of(qh, r"Quaternion_ inverse\(\) const\s*\{", "Quaternion_::inverse")
    must(r"return conj\(\) / length2\(\);", b, "Quaternion_::inverse")
    out.append("/-- `Quaternion_::inverse()`: `conj() / length2()` with `operator/(T t)` = `*this * (1 / t)` -/\n"
               "def inverse (F : Fld K) (p : Quat K) : Quat K :=\n  smul F (conj F p) (F.div (F.lit 1) (length2 F p))\n")
    files["Gen/QuatGen.lean"] = (HEADER % ("include/asl/Quaternion.h", "Gen.Q")) + "\n".join(out) + "\nend Gen.Q\n"

    # ---------------- Vec3 (one-line members: `{return Vec3_(…);}` / `{return expr;}`)
    out = []
    V = Env(scalars={"x": "a.x", "y": "a.y", "z": "a.z", "r": "r"}, structs={"b": ("b", ("x", "y", "z"))})

    def v3method(header_rx, what, name, doc, params):
        c = vec_method(v3, header_rx, what, r"Vec3_", 3, V)
        out.append("/-- %s -/\ndef %s (F : Fld K) %s : V3 K :=\n  V3.mk %s\n" % (doc, name, params, "\n    ".join(c)))

    v3method(r"Vec3_ operator\^\(const Vec3_& b\) const\s*\{", "Vec3_::operator^", "cross", "`Vec3_::operator^` (cross product)", "(a b : V3 K)")
    v3method(r"Vec3_ operator\+\(const Vec3_& b\) const\s*\{", "Vec3_::operator+", "add", "`Vec3_::operator+`", "(a b : V3 K)")
    v3method(r"Vec3_ operator-\(const Vec3_& b\) const\s*\{", "Vec3_::operator-", "sub", "`Vec3_::operator-`", "(a b : V3 K)")
    v3method(r"Vec3_ operator\*\(T r\) const\s*\{", "Vec3_::operator*(T)", "smul", "`Vec3_::operator*(T r)`", "(a : V3 K) (r : K)")
    b = body_of(v3, r"T operator\*\(const Vec3_& b\) const\s*\{", "Vec3_::operator*(Vec3)")
    m = must(r"return (.*);", b, "Vec3_::operator*(Vec3)")
    out.append("/-- `Vec3_::operator*(const Vec3_& b)` (dot product) -/\ndef dot (F : Fld K) (a b : V3 K) : K :=\n  %s\n" % emit(parse_expr(m.group(1)), V))
    b = body_of(v3, r"T length2\(\) const\s*\{", "Vec3_::length2")
    m = must(r"return (.*);", b, "Vec3_::length2")
    out.append("/-- `Vec3_::length2()` -/\ndef length2 (F : Fld K) (a : V3 K) : K :=\n  %s\n" % emit(parse_expr(m.group(1)), V))
    files["Gen/Vec3Gen.lean"] = (HEADER % ("include/asl/Vec3.h", "Gen.V3")) + "\n".join(out) + "\nend Gen.V3\n"
    hdr = HEADER.replace("import AslModel.Fld\n", "import AslModel.Fld\nimport Gen.Vec3Gen\nimport Gen.QuatGen\nimport Gen.Matrix4Gen\n")
    files["Gen/AxisAngleGen.lean"] = (hdr % ("include/asl/Quaternion.h, Matrix4.h, Vec3.h (axis-angle conversions)", "Gen.AA")) + \
        "\n".join(axis_defs(qh, m4, v3)) + "\nend Gen.AA\n"
    return files
