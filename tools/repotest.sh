#!/bin/sh
# build /repo (guard off) and run its 28 tests
cmake --build /repo/_build 2>&1 | grep -E "error|FAILED" ; ctest --test-dir /repo/_build -j8 --timeout 900 2>&1 | tail -3
