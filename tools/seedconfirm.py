#!/usr/bin/env python3
"""Confirm a seeded change independently: seedconfirm.py <seed_out dir> [--asan] [--tsan] [--args "..."] [--runs N]
In a scratch worktree of /repo HEAD: build + 28 tests + demo on the ORIGINAL (demo must pass), apply patch.diff,
rebuild + 28 tests (must pass) + demo (must fail at least once in N runs). Prints a JSON summary."""
import json, os, shutil, subprocess, sys, tempfile
d = os.path.abspath(sys.argv[1])
asan = "--asan" in sys.argv; tsan = "--tsan" in sys.argv
args = sys.argv[sys.argv.index("--args") + 1].split() if "--args" in sys.argv else []
runs = int(sys.argv[sys.argv.index("--runs") + 1]) if "--runs" in sys.argv else 1
demo = sys.argv[sys.argv.index("--demo") + 1] if "--demo" in sys.argv else "demo.cpp"
xflags = sys.argv[sys.argv.index("--cxxflags") + 1] if "--cxxflags" in sys.argv else ""
wt = tempfile.mkdtemp(prefix="seedcf-", dir="/tmp"); os.rmdir(wt)
def sh(cmd, **kw):
    return subprocess.run(cmd, shell=True, stdout=subprocess.PIPE, stderr=subprocess.STDOUT, **kw)
res = {}
try:
    sh("git -C /repo worktree add -f --detach %s HEAD" % wt)
    def build_and_test(tag):
        r = sh("cd %s && cmake -G Ninja -B _build -DASL_TESTS=ON -DCMAKE_BUILD_TYPE=Release > /dev/null && cmake --build _build 2>&1 | tail -2 && ctest --test-dir _build -j8 --timeout 900 2>&1 | tail -3" % wt)
        out = r.stdout.decode()
        res[tag + "_tests"] = "100% tests passed" in out
        if not res[tag + "_tests"]: res[tag + "_tests_out"] = out[-600:]
    def run_demo(tag):
        lib = [f for f in os.listdir(wt + "/_build/lib") if f.endswith(".a")][0]
        san = "-fsanitize=address" if asan else ("-fsanitize=thread" if tsan else "")
        c = sh("g++ -std=c++11 -O1 -g %s -I%s/include -I%s %s/%s %s/_build/lib/%s -lpthread -ldl %s -o %s/demo.bin" % (san, wt, d, d, demo, wt, lib, xflags, wt))
        if c.returncode != 0:
            res[tag + "_demo"] = "compile-error: " + c.stdout.decode()[-400:]; return
        rcs = []
        for i in range(runs):
            try:
                r = sh("cd %s && timeout 300 ./demo.bin %s" % (wt, " ".join(args)))
                rcs.append(r.returncode)
                last = r.stdout.decode(errors='replace')[-300:]
            except Exception as e:
                rcs.append(-999); last = str(e)
        res[tag + "_demo_rcs"] = rcs; res[tag + "_demo_tail"] = last
    build_and_test("orig"); run_demo("orig")
    a = sh("git -C %s apply --whitespace=nowarn %s/patch.diff" % (wt, d))
    if a.returncode != 0:
        a = sh("git -C %s apply --3way --whitespace=nowarn %s/patch.diff" % (wt, d))
    res["patch_applies"] = a.returncode == 0
    if a.returncode == 0:
        build_and_test("changed"); run_demo("changed")
    res["confirmed"] = bool(res.get("orig_tests") and res.get("changed_tests") and all(r == 0 for r in res.get("orig_demo_rcs", [1])) and any(r != 0 for r in res.get("changed_demo_rcs", [0])))
finally:
    sh("git -C /repo worktree remove --force %s" % wt); shutil.rmtree(wt, ignore_errors=True)
print(json.dumps(res, indent=1))
