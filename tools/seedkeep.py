#!/usr/bin/env python3
"""Confirm a seeded change, run the property's check against it, and record everything under seeded/<id>[-n]/.
usage: seedkeep.py <property id> <seed_out dir> <needs: text> [--name suffix] [confirm flags: --asan --tsan --args ".." --runs N --demo file]"""
import json, os, shutil, subprocess, sys
root = os.path.dirname(os.path.dirname(os.path.abspath(__file__)))
pid, src, needs = sys.argv[1], os.path.abspath(sys.argv[2]), sys.argv[3]
rest = sys.argv[4:]
name = pid
if "--name" in rest:
    i = rest.index("--name"); name = pid + "-" + rest[i + 1]; rest = rest[:i] + rest[i + 2:]
tier = "quick"
if "--tier" in rest:
    i = rest.index("--tier"); tier = rest[i + 1]; rest = rest[:i] + rest[i + 2:]
c = subprocess.run([sys.executable, os.path.join(root, "tools", "seedconfirm.py"), src] + rest, capture_output=True)
try:
    conf = json.loads(c.stdout.decode()[c.stdout.decode().index("{"):])
except Exception:
    conf = {"confirmed": False, "raw": c.stdout.decode()[-1500:] + c.stderr.decode()[-500:]}
print("confirmed:", conf.get("confirmed"))
t = subprocess.run([sys.executable, os.path.join(root, "tools", "seedtest.py"), pid, os.path.join(src, "patch.diff"), "--tier", tier], capture_output=True)
tout = t.stdout.decode(errors="replace")
detected = t.returncode == 1 and "VIOLATION property=" + pid in tout
print("detected:", detected)
print("\n".join(tout.split("\n")[:14]))
dst = os.path.join(root, "seeded", name)
os.makedirs(dst, exist_ok=True)
for f in os.listdir(src):
    p = os.path.join(src, f)
    if os.path.isfile(p) and os.path.getsize(p) < 400000 and not f.endswith((".bin", ".o", ".a")) and not os.access(p, os.X_OK) or f.endswith((".sh", ".cpp", ".md", ".diff", ".h", ".py")):
        shutil.copy(p, os.path.join(dst, f))
viol = [l for l in tout.split("\n") if l.startswith("VIOLATION")]
kinds = [l.strip() for l in tout.split("\n") if l.startswith("  kind") or l.startswith("  case") or l.startswith("  name")]
meta = {"property": pid, "needs_to_manifest": needs,
        "confirmed_by_main_session": conf,
        "confirm_cmd": "python3 tools/seedconfirm.py seeded/%s %s" % (name, " ".join(rest)),
        "check_cmd": "python3 tools/seedtest.py %s seeded/%s/patch.diff --tier %s" % (pid, name, tier),
        "detected": detected, "violation_lines": viol[:6], "detail": kinds[:9],
        "with_concrete_input": any("no-failing-input-found" not in v for v in viol)}
json.dump(meta, open(os.path.join(dst, "meta.json"), "w"), indent=1)
