#!/bin/bash
# Regression of every kept seeded change against the current checks (quick tier, scratch worktree of /repo HEAD, never /repo).
# Seeds of ONE property run one after the other (scratch runs of a property regenerate the same lean/Gen files);
# different properties run three at a time.   usage: tools/seedreg.sh [outdir]
cd "$(dirname "$0")/.." || exit 2
OUT=${1:-/tmp/seedreg}
mkdir -p "$OUT"; rm -f "$OUT/summary.txt"
ls -d seeded/*/ | sed 's#seeded/##; s#/##' | cut -c1-3 | sort -u | xargs -P 3 -I{} sh -c '
  for d in $(ls -d seeded/{}*/ | sed "s#seeded/##; s#/##"); do
    python3 tools/seedtest.py {} seeded/$d/patch.diff --tier quick > '"$OUT"'/$d.log 2>&1
    V=$(grep -c "^VIOLATION" '"$OUT"'/$d.log); C=$(grep "^VIOLATION" '"$OUT"'/$d.log | grep -vc "no-failing-input-found")
    A=$(grep -ci "patch does not apply" '"$OUT"'/$d.log)
    echo "$d violations=$V concrete=$C applyerr=$A" >> '"$OUT"'/summary.txt
  done'
echo DONE >> "$OUT/summary.txt"
sort "$OUT/summary.txt"
