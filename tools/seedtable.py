#!/usr/bin/env python3
"""Print the markdown table of seeded changes (seeded/*/meta.json) for DESIGN.md §8.6."""
import glob, json, os
root = os.path.dirname(os.path.dirname(os.path.abspath(__file__)))
print("| Seed | Property | What it needs to manifest | Confirmed | Caught by | With concrete input | On the repaired tree |")
print("|---|---|---|---|---|---|---|")
for f in sorted(glob.glob(os.path.join(root, "seeded", "*", "meta.json"))):
    m = json.load(open(f))
    how = set()
    for l in m.get("detail", []):
        if l.startswith("name="):
            if "broken obligations" in l: how.add("broken proof obligation (regenerated definitions)")
            if "reference" in l: how.add("independent reference oracle")
            if "trace inclusion" in l: how.add("trace inclusion (model rejects the trace)")
            if "correspondence" in l or "K(" in l: how.add("correspondence K")
        if l.startswith("kind=crash"):
            how.add("sanitizer: " + l.split("crash=")[1].split()[0])
    if not m.get("detected"):
        how = {"MISSED"}
    needs = m["needs_to_manifest"].replace("|", "\\|")
    pp = m.get("ported_patch")
    now = "applies, caught"
    if pp:
        now = "ported (patch.current.diff), caught" if pp.get("file") else "neutralised by a repair: the property holds on the mutated tree, check silent"
    print("| %s | %s | %s | %s | %s | %s | %s |" % (os.path.basename(os.path.dirname(f)), m["property"], needs[:220] + ("…" if len(needs) > 220 else ""),
          "yes" if m["confirmed_by_main_session"].get("confirmed") else "NO", "; ".join(sorted(how)), "yes" if m.get("with_concrete_input") else "no (no-failing-input-found)", now))
