#!/usr/bin/env python3
"""Run a property check against a seeded change without touching /repo:
   seedtest.py <property id> <patch.diff> [--tier quick|thorough] [--seed N]
creates a scratch worktree of /repo HEAD under /tmp, applies the patch, runs tools/check.py with ASL_REPO pointing at it,
prints the verdict lines and removes the worktree."""
import os, subprocess, sys, tempfile, shutil
pid, patch = sys.argv[1], os.path.abspath(sys.argv[2])
tier = "quick"; seed = "1"
if "--tier" in sys.argv: tier = sys.argv[sys.argv.index("--tier") + 1]
if "--seed" in sys.argv: seed = sys.argv[sys.argv.index("--seed") + 1]
wt = tempfile.mkdtemp(prefix="seedwt-", dir="/tmp")
os.rmdir(wt)
root = os.path.dirname(os.path.dirname(os.path.abspath(__file__)))
try:
    subprocess.check_call(["git", "-C", "/repo", "worktree", "add", "-f", "--detach", wt, "HEAD"], stdout=subprocess.DEVNULL, stderr=subprocess.DEVNULL)
    r = subprocess.run(["git", "-C", wt, "apply", "--whitespace=nowarn", patch], capture_output=True)
    if r.returncode != 0:
        r = subprocess.run(["git", "-C", wt, "apply", "--3way", "--whitespace=nowarn", patch], capture_output=True)
    alt = os.path.join(os.path.dirname(patch), "patch.current.diff")
    if os.path.basename(patch) == "patch.diff" and os.path.exists(alt):
        # the seeded change as ported to the current (since repaired) tree: same mutation, new context
        subprocess.run(["git", "-C", wt, "reset", "-q", "--hard", "HEAD"], capture_output=True)   # also clears a conflicted 3-way attempt
        r = subprocess.run(["git", "-C", wt, "apply", "--whitespace=nowarn", alt], capture_output=True)
        print("(using patch.current.diff)")
    if r.returncode != 0:
        print("PATCH DOES NOT APPLY:", r.stderr.decode()[-800:]); sys.exit(3)
    env = dict(os.environ, ASL_REPO=wt, VERIF_SEED=seed)
    p = subprocess.run([sys.executable, os.path.join(root, "tools", "check.py"), pid, "--tier", tier], env=env, capture_output=True, cwd=root)
    out = p.stdout.decode(errors="replace") + p.stderr.decode(errors="replace")
    keep = [l for l in out.split("\n") if l.startswith("VIOLATION") or l.startswith("KNOWN") or l.startswith("[C") or l.startswith("ERROR") or l.startswith("  kind") or l.startswith("  case") or l.startswith("  name")]
    print("\n".join(keep[:40]))
    print("exit=%d" % p.returncode)
    sys.exit(p.returncode)
finally:
    subprocess.run(["git", "-C", "/repo", "worktree", "remove", "--force", wt], capture_output=True)
    shutil.rmtree(wt, ignore_errors=True)
    # regenerate the Gen files from the real tree again
    subprocess.run([sys.executable, "-c", "import sys; sys.path.insert(0,'%s/tools'); from lib import engine; import importlib; engine.regen(importlib.import_module('props.%s'))" % (root, pid.lower())], cwd=root, capture_output=True)
