#!/usr/bin/env python3
"""Replace text in a /repo source file preserving its line endings (most are CRLF).
usage: srcedit.py FILE <<< JSON [[old,new],...]   (old/new written with \n)"""
import json, sys
p = sys.argv[1]
raw = open(p, 'rb').read().decode('latin-1')
crlf = '\r\n' in raw
txt = raw.replace('\r\n', '\n')
for old, new in json.load(sys.stdin):
    if txt.count(old) != 1:
        sys.exit("pattern occurs %d times: %r" % (txt.count(old), old[:60]))
    txt = txt.replace(old, new)
if crlf:
    txt = txt.replace('\n', '\r\n')
open(p, 'wb').write(txt.encode('latin-1'))
