#!/usr/bin/env python3
"""compile a scratch C++ program against an ASan build of /repo's current tree and run it:  try.py prog.cpp [args]"""
import os, subprocess, sys
sys.path.insert(0, os.path.dirname(os.path.abspath(__file__)))
from lib import core
libdir, _ = core.build_lib("asan")
src = sys.argv[1]
exe = src[:-4] + ".bin"
cmd = ["g++"] + core.BASE_FLAGS + core.SAN_FLAGS + ["-I", core.REPO + "/include", "-I", core.ROOT + "/harness", src, libdir + "/libasl.a", "-lpthread", "-ldl", "-o", exe]
r = subprocess.run(cmd)
if r.returncode: sys.exit(r.returncode)
sys.exit(subprocess.run([exe] + sys.argv[2:], env=core.san_env()).returncode)
